package props

// C19: the message signature depends only on what it is documented to fingerprint.

import (
	"bytes"
	"fmt"
	"regexp"

	"github.com/intuitivelabs/sipsp"
	"pgregory.net/rapid"
)

// SigHdr is one header line "Name: Val".
type SigHdr struct {
	Name B `json:"n"`
	Val  B `json:"v"`
}

// CaseSig: a base request and variants that must have the same signature.
type CaseSig struct {
	Method B          `json:"method"`
	Reply  bool       `json:"reply"` // render a status line instead (no signature expected)
	Base   []SigHdr   `json:"base"`
	Vars   [][]SigHdr `json:"vars"`
	CallID B          `json:"callid"` // the fingerprinted strings used by base and variants (for the character-flag oracle)
	Tag    B          `json:"tag"`
	Branch B          `json:"branch"`
	Pre    B          `json:"pre"`     // bytes before the variants in the buffer (they are parsed at offset len(pre))
	Sched  []int      `json:"sched"`   // chunk schedule for the variants
	HdrCap int        `json:"hdr_cap"` // >= N: all fit; smaller: truncated indication allowed
}

func renderSigMsg(method []byte, reply bool, hs []SigHdr) []byte {
	var w bytes.Buffer
	if reply {
		w.WriteString("SIP/2.0 200 OK\r\n")
	} else {
		w.Write(method)
		w.WriteString(" sip:user@example.com SIP/2.0\r\n")
	}
	for _, h := range hs {
		w.Write(h.Name)
		w.WriteString(": ")
		w.Write(h.Val)
		w.WriteString("\r\n")
	}
	w.WriteString("\r\n")
	return w.Bytes()
}

var sigOrder = []sipsp.HdrT{sipsp.HdrCallID, sipsp.HdrContact, sipsp.HdrCSeq, sipsp.HdrFrom, sipsp.HdrMaxFwd, sipsp.HdrTo, sipsp.HdrVia, sipsp.HdrUA}

// refHdrSig: first occurrences in order; Contact only for INVITE; compact bit from a one-letter name.
func refHdrSig(method []byte, hs []SigHdr) []sipsp.HdrSigId {
	var out []sipsp.HdrSigId
	seen := map[sipsp.HdrT]bool{}
	invite := string(method) == "INVITE"
	for _, h := range hs {
		t := refHdrType(h.Name)
		if seen[t] {
			continue
		}
		seen[t] = true
		id := -1
		for i, s := range sigOrder {
			if s == t {
				id = i
			}
		}
		if id < 0 || (t == sipsp.HdrContact && !invite) {
			continue
		}
		if len(h.Name) == 1 {
			id |= 0x8
		}
		out = append(out, sipsp.HdrSigId(id))
		if len(out) == 8 {
			break
		}
	}
	return out
}

var sigStringRE = regexp.MustCompile(`^[0-9a-f]{1,9}I[0-9a-f]{6}F[0-9a-f]{4}V[0-9a-f]{4}$`)

func parseForSig(buf []byte, sched []int, hdrCap int) (*sipsp.PSIPMsg, int, sipsp.ErrorHdr) {
	return parseForSigAt(nil, buf, sched, hdrCap)
}

// parseForSigAt parses msg placed behind pre in one buffer, starting at offset len(pre).
func parseForSigAt(pre, msg []byte, sched []int, hdrCap int) (*sipsp.PSIPMsg, int, sipsp.ErrorHdr) {
	st := NewStepper(Cfg{Kind: KMsg, HdrCap: hdrCap, CtCap: -1, PCap: -1})
	buf := append(append([]byte{}, pre...), msg...)
	s := normSchedule(sched, len(msg))
	o := len(pre)
	var e sipsp.ErrorHdr
	for j, c := range s {
		c += len(pre)
		o, e = st.Step(buf[:c:c], o, j == len(s)-1)
		if e != sipsp.ErrHdrMoreBytes {
			break
		}
	}
	return st.msg, o, e
}

func evalSig(c CaseSig) Result {
	base := renderSigMsg(c.Method, c.Reply, c.Base)
	m0, o, e := parseForSig(base, nil, maxInt(80, len(c.Base)+1))
	if e != 0 {
		return viol("base message does not parse: (%d, %v)\nmsg=%s", o, e, B(base))
	}
	sig0, e0 := sipsp.GetMsgSig(m0)
	if c.Reply {
		if e0 != sipsp.ErrHdrEmpty {
			return viol("reply yields a signature: GetMsgSig = (%v, %v), want %v\nmsg=%s", sig0, e0, sipsp.ErrHdrEmpty, B(base))
		}
		if s := sig0.String(); s != "" && !sigStringRE.MatchString(s) {
			return viol("reply: String() = %q is not well formed", s)
		}
		return ok(true, "reply")
	}
	if e0 != 0 {
		return viol("GetMsgSig(base) = %v with all headers stored\nmsg=%s", e0, B(base))
	}
	want := refHdrSig(c.Method, c.Base)
	if sig0.HdrSigLen != len(want) || sig0.HdrSigLen > 8 {
		return viol("HdrSigLen = %d, reference sequence %v has %d entries\nmsg=%s", sig0.HdrSigLen, want, len(want), B(base))
	}
	for i := range want {
		if sig0.HdrSig[i] != want[i] {
			return viol("HdrSig[%d] = %#x, reference %#x (sequence %v, reference %v)\nmsg=%s", i, sig0.HdrSig[i], want[i], sig0.HdrSig[:sig0.HdrSigLen], want, B(base))
		}
	}
	if sig0.Method != refMethodNo(c.Method) {
		return viol("signature method %d, request method %q is %d", sig0.Method, c.Method, refMethodNo(c.Method))
	}
	if s := sig0.String(); !sigStringRE.MatchString(s) {
		return viol("String() = %q is not well formed\nmsg=%s", s, B(base))
	}
	// the rendering starts with the method digit followed by exactly the header ids
	if str := sig0.String(); len(str) > 1+len(want) {
		const hexd = "0123456789abcdef"
		if str[0] != hexd[int(sig0.Method)&0xf] || str[1+len(want)] != 'I' {
			return viol("String() = %q does not start with the method digit and %d header digits followed by 'I'", str, len(want))
		}
		for i, id := range want {
			if str[1+i] != hexd[int(id)&0xf] {
				return viol("String() = %q: header digit %d is %q, the id is %#x", str, i, str[1+i], id)
			}
		}
	}
	// the documented special-character flags of the fingerprinted strings (SigHas*F: '@' '.' ':' '-' '*' '/' '+' '=' '_' '|')
	hasType := func(t sipsp.HdrT) bool {
		for _, h := range c.Base {
			if refHdrType(h.Name) == t {
				return true
			}
		}
		return false
	}
	if len(c.Tag) > 0 {
		wantF := sipsp.StrSigId(0)
		if hasType(sipsp.HdrFrom) {
			wantF = refCharFlags(c.Tag)
		}
		if sig0.FromSig&charFlagMask != wantF {
			return viol("FromSig special-character flags %#x, the From tag %q has %#x\nmsg=%s", uint(sig0.FromSig&charFlagMask), c.Tag, uint(wantF), B(base))
		}
	}
	if len(c.Branch) > 0 {
		wantF := sipsp.StrSigId(0)
		if hasType(sipsp.HdrVia) {
			br := []byte(c.Branch)
			if len(br) > 7 && asciiLower(br[:7]) == "z9hg4bk" {
				br = br[7:]
			}
			wantF = refCharFlags(br)
		}
		if sig0.ViaBSig&charFlagMask != wantF {
			return viol("ViaBSig special-character flags %#x, the first Via branch %q has %#x\nmsg=%s", uint(sig0.ViaBSig&charFlagMask), c.Branch, uint(wantF), B(base))
		}
	}
	const ipPosMask = sipsp.SigIPStartF | sipsp.SigIPEndF | sipsp.SigIPMiddleF
	if len(c.CallID) > 0 && hasType(sipsp.HdrCallID) && !refContainsIP4(c.CallID) && !bytes.Contains(c.CallID, []byte(":")) {
		if wantF := refCharFlags(c.CallID); sig0.CidSig&charFlagMask != wantF {
			return viol("CidSig special-character flags %#x, the Call-ID %q (no IP inside) has %#x\nmsg=%s", uint(sig0.CidSig&charFlagMask), c.CallID, uint(wantF), B(base))
		}
		// "call-id short length (w/o ip) ... rounded to multiple of 4 ... excessive lengths are represented by 0xff"
		wantLen := (len(c.CallID) + 3) / 4
		if wantLen > 0xff {
			wantLen = 0xff
		}
		if int(sig0.CidSLen) != wantLen {
			return viol("CidSLen = %d for a Call-ID of %d bytes without an address (documented: length/4 rounded up, at most 0xff)\nmsg=%s", sig0.CidSLen, len(c.CallID), B(base))
		}
		if sig0.CidSig&ipPosMask != 0 {
			return viol("CidSig %#x has an IP-position flag, the Call-ID %q contains no address\nmsg=%s", uint(sig0.CidSig), c.CallID, B(base))
		}
	} else if len(c.CallID) > 0 && hasType(sipsp.HdrCallID) && refContainsIP4(c.CallID) {
		// an IPv4 address inside the Call-ID (located by ContainsIP4, whose result C20 decides): exactly the
		// position flag of that span, and the special characters are those outside it ("skipping over the ip")
		if found, off, ln := sipsp.ContainsIP4(c.CallID, nil); found && off >= 0 && ln > 0 && off+ln <= len(c.CallID) {
			wantPos := sipsp.SigIPMiddleF
			if off == 0 {
				wantPos = sipsp.SigIPStartF
			} else if off+ln == len(c.CallID) {
				wantPos = sipsp.SigIPEndF
			}
			wantF := refCharFlags(c.CallID[:off]) | refCharFlags(c.CallID[off+ln:])
			if sig0.CidSig&ipPosMask != wantPos || sig0.CidSig&charFlagMask != wantF {
				return viol("CidSig %#x: the Call-ID %q has an IPv4 address at [%d,%d): expected position flag %#x and special-character flags %#x\nmsg=%s",
					uint(sig0.CidSig), c.CallID, off, off+ln, uint(wantPos), uint(wantF), B(base))
			}
		}
	}
	nfp := len(want)
	classes := []string{fmt.Sprintf("fingerprinted:%d", nfp)}
	for vi, v := range c.Vars {
		buf := renderSigMsg(c.Method, false, v)
		capN := len(v) + 1
		if c.HdrCap >= len(v) {
			capN = c.HdrCap
		}
		if c.HdrCap < 0 && len(v) <= 10 {
			capN = -1
		}
		m, o, e := parseForSigAt(c.Pre, buf, c.Sched, capN)
		if e != 0 {
			return viol("variant %d (at offset %d) does not parse: (%d, %v)\nmsg=%s", vi, len(c.Pre), o, e, B(buf))
		}
		sig, se := sipsp.GetMsgSig(m)
		if se != 0 || sig != sig0 {
			return viol("variant %d (parsed at offset %d): GetMsgSig = (%s, %v); base (%s, no error): the signature changed although only non-fingerprinted parts differ\nbase=%s\nvariant=%s",
				vi, len(c.Pre), sig.String(), se, sig0.String(), B(base), B(buf)).with(true, classes...)
		}
		// a header array too small for the message: same signature or an explicit truncated indication
		effCap := c.HdrCap
		if effCap < 0 {
			effCap = 10 // built-in array
		}
		if effCap < len(v) {
			mt, _, et := parseForSigAt(c.Pre, buf, c.Sched, c.HdrCap)
			if et != 0 {
				return viol("variant %d with header capacity %d does not parse: %v", vi, effCap, et)
			}
			st, ste := sipsp.GetMsgSig(mt)
			if ste == sipsp.ErrHdrTrunc {
				classes = append(classes, "trunc-indicated")
			} else if ste != 0 || st != sig0 {
				return viol("variant %d with header capacity %d < %d headers: GetMsgSig = (%s, %v): neither the full signature %s nor a truncated indication\nvariant=%s",
					vi, effCap, len(v), st.String(), ste, sig0.String(), B(buf)).with(true, classes...)
			}
			if st.HdrSigLen > 8 || st.HdrSigLen < 0 {
				return viol("HdrSigLen %d out of range", st.HdrSigLen)
			}
			if s := st.String(); s != "" && !sigStringRE.MatchString(s) {
				return viol("truncated signature String() = %q is not well formed", s)
			}
		}
	}
	return ok(nfp >= 3 && len(c.Vars) >= 1, classes...)
}

// ---------- generator ----------

var fpNames = map[string][2]string{
	"callid": {"Call-ID", "i"}, "contact": {"Contact", "m"}, "cseq": {"CSeq", "CSeq"}, "from": {"From", "f"},
	"maxfwd": {"Max-Forwards", "Max-Forwards"}, "to": {"To", "t"}, "via": {"Via", "v"}, "ua": {"User-Agent", "User-Agent"},
}

var fpKinds = []string{"callid", "contact", "cseq", "from", "maxfwd", "to", "via", "ua"}

func genCallIDText(t *rapid.T) B {
	switch weighted(t, "cid_k", 12, 8, 8, 8, 8, 1) {
	case 5:
		// around the point where the stored length saturates (4*255 = 1020 bytes)
		return append(bytes.Repeat([]byte("a1"), 500), genFrom(t, "cid_long", "abcdef0123-", 8, 120)...)
	case 0:
		return genFrom(t, "cid_hex", "0123456789abcdef", 8, 32)
	case 1:
		return append(genFrom(t, "cid_a", "abcdefghijklmnopqrstuvwxyzABCDEFGHIJ0123456789", 6, 20), append([]byte("@"), genFrom(t, "cid_h", "abc.-0123", 3, 12)...)...)
	case 2:
		ip := fmt.Sprintf("%d.%d.%d.%d", rapid.IntRange(1, 255).Draw(t, "ip"), rapid.IntRange(0, 255).Draw(t, "ip"), rapid.IntRange(0, 255).Draw(t, "ip"), rapid.IntRange(0, 255).Draw(t, "ip"))
		a := string(genFrom(t, "cid_a", "abcdef0123456789-", 4, 16))
		return B(pick(t, "cid_ipos", ip+"-"+a, a+"@"+ip, a+"-"+ip+"-"+a))
	case 3:
		return genFrom(t, "cid_b64", "ABCDEFGHIJKLMNOPQRSTUVWXYZabcdefghijklmnopqrstuvwxyz0123456789+/", 12, 24)
	default:
		return genFrom(t, "cid_mix", "abcXYZ019-_.*+=|:", 4, 24)
	}
}

type sigBase struct {
	callid, tag, branch B
}

// fpHeader renders a fingerprinted header; the fingerprinted strings come from sb,
// everything else is drawn fresh (so two calls differ only in non-fingerprinted parts).
func fpHeader(t *rapid.T, kind string, compact bool, sb sigBase) SigHdr {
	n := fpNames[kind][0]
	if compact {
		n = fpNames[kind][1]
	}
	name := B(n)
	if len(n) > 1 {
		name = recase(t, n)
	}
	user := string(genFrom(t, "u", "abcdefgh0123", 1, 6))
	host := string(genFrom(t, "h", "abcdefgh.0123", 1, 10))
	switch kind {
	case "callid":
		return SigHdr{name, sb.callid}
	case "contact":
		return SigHdr{name, B(pick(t, "ctform", "<sip:"+user+"@"+host+">", "sip:"+user+"@"+host, "\"C\" <sip:"+host+">;expires=60, <sip:"+user+"@"+host+">"))}
	case "cseq":
		return SigHdr{name, B(fmt.Sprintf("%d %s", rapid.IntRange(0, 1000000).Draw(t, "cseq"), pick(t, "cm", "INVITE", "REGISTER", "BYE", "X")))}
	case "from":
		disp := pick(t, "disp", "", "Alice ", "\"A, B\" ")
		extra := pick(t, "fx", "", ";x=y", ";q=0.5")
		if rapid.Bool().Draw(t, "tagfirst") {
			return SigHdr{name, B(disp + "<sip:" + user + "@" + host + ">;tag=" + string(sb.tag) + extra)}
		}
		return SigHdr{name, B(disp + "<sip:" + user + "@" + host + ">" + extra + ";tag=" + string(sb.tag))}
	case "maxfwd":
		return SigHdr{name, B(fmt.Sprintf("%d", rapid.IntRange(0, 255).Draw(t, "mf")))}
	case "to":
		return SigHdr{name, B(pick(t, "toform", "<sip:"+user+"@"+host+">", "Bob <sip:"+user+"@"+host+">;tag="+user, "sip:"+user+"@"+host))}
	case "via":
		proto := pick(t, "vproto", "SIP/2.0/UDP ", "SIP/2.0/TCP ", "SIP/2.0/TLS ")
		other := pick(t, "vother", "", ";rport", ";received=1.2.3.4", ";ttl=2")
		if len(sb.branch) == 0 {
			// a first Via without a branch (or with a value-less / empty one): the signature has no branch
			// part, and a later Via that does have one must not supply it
			return SigHdr{name, B(proto + host + other + pick(t, "nobranch", "", "", ";branch", ";branch="))}
		}
		if rapid.Bool().Draw(t, "brfirst") {
			return SigHdr{name, B(proto + host + ";branch=" + string(sb.branch) + other)}
		}
		return SigHdr{name, B(proto + host + other + ";branch=" + string(sb.branch))}
	default:
		return SigHdr{name, B(pick(t, "ua", "agent/1.0", "Some Phone 2.3 (x)", "z"))}
	}
}

var fillerNames = []string{"X-Filler", "Date", "Subject", "Allow", "Supported", "Expires", "Route", "Record-Route",
	"P-Asserted-Identity", "Content-Type", "Organization", "Accept", "x", "Event"}

func fillerHeader(t *rapid.T) SigHdr {
	n := pick(t, "fname", fillerNames...)
	var v string
	switch asciiLower([]byte(n)) {
	case "expires":
		v = fmt.Sprintf("%d", rapid.IntRange(0, 7200).Draw(t, "fexp"))
	case "route", "record-route", "p-asserted-identity":
		v = "<sip:" + string(genFrom(t, "fh", "abc.123", 1, 8)) + ";lr>"
	default:
		v = string(genFrom(t, "fv", "abcdefg 0123;=,/", 0, 16))
		v = string(trimLWS([]byte(v)))
		if rapid.IntRange(0, 3).Draw(t, "fbranch") == 0 {
			// values of other headers may look like Via values: they must not leak into the signature
			v = "SIP/2.0/UDP filler.example;branch=" + string(genFrom(t, "fbr", "z9hG4bKabc-._+*=/@:|123", 1, 16)) + ";tag=" + string(genFrom(t, "ftag", "abc-._+123", 1, 8))
		}
	}
	return SigHdr{recase(t, n), B(v)}
}

func insertAt(hs []SigHdr, pos int, h SigHdr) []SigHdr {
	out := append([]SigHdr{}, hs[:pos]...)
	out = append(out, h)
	return append(out, hs[pos:]...)
}

func genCaseSig(t *rapid.T) CaseSig {
	var c CaseSig
	c.Method = B(pick(t, "method", "INVITE", "INVITE", "REGISTER", "BYE", "OPTIONS", "SUBSCRIBE", "FOO", "MESSAGE", "ACK"))
	c.Reply = rapid.IntRange(0, 14).Draw(t, "reply") == 0
	sb := sigBase{callid: genCallIDText(t),
		tag:    genFrom(t, "tag", "abcdef0123456789ABCDEF-.+", 1, 16),
		branch: append(B(pick(t, "brpfx", "z9hG4bK", "z9hG4bK", "")), genFrom(t, "br", "abcdef0123456789ABCXYZ-.", 1, 20)...)}
	if rapid.IntRange(0, 5).Draw(t, "nobranch1st") == 0 {
		sb.branch = nil // first Via without a branch
	}
	c.CallID, c.Tag, c.Branch = sb.callid, sb.tag, sb.branch
	// subset and order of fingerprinted headers, with their forms
	perm := rapid.Permutation(fpKinds).Draw(t, "perm")
	k := rapid.IntRange(2, 8).Draw(t, "nfp")
	type slot struct {
		kind    string
		compact bool
	}
	var slots []slot
	for _, kind := range perm[:k] {
		slots = append(slots, slot{kind, rapid.Bool().Draw(t, "compact")})
	}
	// the base: fingerprinted headers with fillers in between
	for _, s := range slots {
		if oneIn(t, "filler_needle", 60) {
			// many other headers in front of a fingerprinted one (its first occurrence far down the header array)
			for k := manyN(t, "filler_many", 110); k > 0; k-- {
				c.Base = append(c.Base, fillerHeader(t))
			}
		}
		for rapid.IntRange(0, 2).Draw(t, "filler") == 0 {
			c.Base = append(c.Base, fillerHeader(t))
		}
		c.Base = append(c.Base, fpHeader(t, s.kind, s.compact, sb))
	}
	// variants
	nv := rapid.IntRange(1, 4).Draw(t, "nvars")
	for v := 0; v < nv; v++ {
		var hs []SigHdr
		// same fingerprinted skeleton, fresh non-fingerprinted parts, fresh fillers
		rewrite := rapid.Bool().Draw(t, "rewrite")
		for _, s := range slots {
			for rapid.IntRange(0, 2).Draw(t, "vfiller") == 0 {
				hs = append(hs, fillerHeader(t))
			}
			var baseHdr *SigHdr
			for i := range c.Base {
				if refHdrType(c.Base[i].Name) == refHdrType(B(fpNames[s.kind][0])) {
					baseHdr = &c.Base[i]
					break
				}
			}
			if rewrite || baseHdr == nil {
				hs = append(hs, fpHeader(t, s.kind, s.compact, sb))
			} else {
				hs = append(hs, *baseHdr)
			}
		}
		// repeat fingerprinted headers later, with other values and forms
		nrep := rapid.IntRange(0, 3).Draw(t, "nrep")
		for r := 0; r < nrep; r++ {
			s := slots[rapid.IntRange(0, len(slots)-1).Draw(t, "repwhich")]
			other := sigBase{callid: genCallIDText(t), tag: B("othertag"), branch: B("z9hG4bKother.1")}
			dup := fpHeader(t, s.kind, rapid.Bool().Draw(t, "repcompact"), other)
			// anywhere after the first occurrence of that type
			first := 0
			for i, h := range hs {
				if refHdrType(h.Name) == refHdrType(dup.Name) {
					first = i
					break
				}
			}
			pos := rapid.IntRange(first+1, len(hs)).Draw(t, "reppos")
			hs = insertAt(hs, pos, dup)
		}
		for rapid.IntRange(0, 2).Draw(t, "tailfiller") == 0 {
			hs = append(hs, fillerHeader(t))
		}
		// a later Via may also follow on the SAME header line (comma separated, possibly folded)
		if rapid.IntRange(0, 2).Draw(t, "viasameline") == 0 {
			for i := range hs {
				if refHdrType(hs[i].Name) == sipsp.HdrVia {
					hs[i].Val = append(append(B{}, hs[i].Val...), pick(t, "viasep", ", ", ",", " ,\r\n ", ",\r\n\t")...)
					hs[i].Val = append(hs[i].Val, "SIP/2.0/UDP later.example;branch=z9hG4bK-x.y_z;rport"...)
					break
				}
			}
		}
		// for a non-INVITE request Contact is not fingerprinted: a Contact header is just another header
		if string(c.Method) != "INVITE" && rapid.IntRange(0, 2).Draw(t, "contactfiller") == 0 {
			hasContact := false
			for _, h := range hs {
				if refHdrType(h.Name) == sipsp.HdrContact {
					hasContact = true
				}
			}
			if !hasContact {
				pos := rapid.IntRange(0, len(hs)).Draw(t, "ctpos")
				hs = insertAt(hs, pos, SigHdr{recase(t, pick(t, "ctname", "Contact", "m")), B("<sip:extra@contact.example>;expires=5")})
			}
		}
		c.Vars = append(c.Vars, hs)
	}
	if rapid.Bool().Draw(t, "chunked") {
		c.Sched = []int{rapid.IntRange(1, 40).Draw(t, "c1"), rapid.IntRange(41, 120).Draw(t, "c2"), rapid.IntRange(121, 400).Draw(t, "c3")}
	}
	c.HdrCap = pick(t, "hcap", 80, 80, 40, -1, 0, 1, 2, 3, 5, 8)
	if c.HdrCap == 80 {
		// "ample" means every header of the base and of every variant fits
		most := len(c.Base)
		for _, v := range c.Vars {
			if len(v) > most {
				most = len(v)
			}
		}
		if most+1 > c.HdrCap {
			c.HdrCap = most + 1
		}
	}
	switch weighted(t, "pre_k", 3, 2, 2) {
	case 1: // behind an earlier message of the same stream
		c.Pre = B("OPTIONS sip:a@b SIP/2.0\r\nCall-ID: 1.2.3.4-ff@x_y\r\nVia: SIP/2.0/UDP h;branch=z9hG4bK-a.b\r\nl: 0\r\n\r\n")
	case 2:
		c.Pre = genFrom(t, "pre", "\r\n ab:;@-._0123456789", 1, 200)
	}
	return c
}

var C19Sig = Register(&Check[CaseSig]{Prop: "C19", Name: "C19.sig", Gen: genCaseSig, Eval: evalSig})

const charFlagMask = sipsp.SigHasAtF | sipsp.SigHasDotF | sipsp.SigHasColonF | sipsp.SigHasDashF | sipsp.SigHasStarF |
	sipsp.SigHasDivF | sipsp.SigHasPlusF | sipsp.SigHasEqF | sipsp.SigHasUnderF | sipsp.SigHasPipeF

// refCharFlags: the documented meaning of the SigHas*F constants.
func refCharFlags(s []byte) sipsp.StrSigId {
	var f sipsp.StrSigId
	for _, ch := range s {
		switch ch {
		case '@':
			f |= sipsp.SigHasAtF
		case '.':
			f |= sipsp.SigHasDotF
		case ':':
			f |= sipsp.SigHasColonF
		case '-':
			f |= sipsp.SigHasDashF
		case '*':
			f |= sipsp.SigHasStarF
		case '/':
			f |= sipsp.SigHasDivF
		case '+':
			f |= sipsp.SigHasPlusF
		case '=':
			f |= sipsp.SigHasEqF
		case '_':
			f |= sipsp.SigHasUnderF
		case '|':
			f |= sipsp.SigHasPipeF
		}
	}
	return f
}
