package props

// C03: no premature verdicts - a definitive result never changes when more bytes arrive.

import (
	"github.com/intuitivelabs/sipsp"
	"pgregory.net/rapid"
)

// CasePrem: an input, whose every prefix is parsed one-shot, plus foreign suffixes.
type CasePrem struct {
	Cfg   Cfg    `json:"cfg"` // EndLast is always false here (end-of-input modes are exempt)
	Pre   B      `json:"pre"`
	Buf   B      `json:"buf"`
	Sfx   []B    `json:"sfx"` // suffixes appended to the prefixes near the decision boundary
	Class string `json:"class,omitempty"`
}

// restOfBufferBody: a message whose body is by definition the rest of the buffer
// (no skip-body, no require-Content-Length, no Content-Length header parsed).
func restOfBufferBody(st *Stepper, e sipsp.ErrorHdr) bool {
	if st.msg == nil || e != 0 {
		return false
	}
	if st.cfg.Flags&(uint(sipsp.SIPMsgSkipBodyF)|uint(sipsp.SIPMsgCLenReqF)) != 0 {
		return false
	}
	return !st.msg.PV.CLen.Parsed()
}

// snapNoBody renders a successfully parsed message without the body extent.
func snapNoBody(st *Stepper, buf []byte, base int) string {
	sn := newSnap(buf, base)
	m := st.msg
	sn.fline("FL", &m.FL)
	sn.hdrlst("HL", &m.HL)
	sn.hdrvals("PV", &m.PV, false)
	sn.kv("Body.start", int(m.Body.Offs)-base)
	return sn.String()
}

// sameVerdict compares the result on a longer buffer with the reference result.
func sameVerdict(ref *Stepper, rbuf []byte, ro int, re sipsp.ErrorHdr,
	got *Stepper, gbuf []byte, gotO int, gotE sipsp.ErrorHdr, start int) string {
	if gotE != re {
		return sprintf("verdict changed from %v to %v", re, gotE)
	}
	if restOfBufferBody(ref, re) {
		a, b := snapNoBody(got, gbuf, start), snapNoBody(ref, rbuf, start)
		if a != b {
			return "parsed values changed (body extent exempt):\n" + diffSnap(a, b)
		}
		return ""
	}
	if gotO != ro {
		return sprintf("consumed offset changed from %d to %d", ro-start, gotO-start)
	}
	a, b := got.Snap(gbuf, start, gotE), ref.Snap(rbuf, start, re)
	if ref.msg != nil && ref.Success(re) {
		// len(Buf) and RawMsg are functions of the returned offset: equal here
	}
	if a != b {
		return "parsed values changed:\n" + diffSnap(a, b)
	}
	return ""
}

func evalPremature(cs CasePrem) Result {
	cfg := cs.Cfg
	cfg.EndLast = false
	if cfg.Kind == KMsg {
		cfg.Flags &^= uint(sipsp.SIPMsgNoMoreDataF)
	} else {
		cfg.Flags &^= uint(sipsp.POptInputEndF)
	}
	start := len(cs.Pre)
	full := append(append([]byte{}, cs.Pre...), cs.Buf...)
	n := len(cs.Buf)
	classes := []string{"kind:" + cfg.Kind}
	if cs.Class != "" {
		classes = append(classes, cs.Class)
	}
	// first definitive prefix
	nstar := -1
	var ref *Stepper
	var ro int
	var re sipsp.ErrorHdr
	for i := 0; i <= n; i++ {
		st, o, e := oneShot(cfg, full[:start+i:start+i], start, false)
		if nstar < 0 {
			if e != sipsp.ErrHdrMoreBytes {
				nstar, ref, ro, re = i, st, o, e
			}
			continue
		}
		// natural continuation: every longer prefix must agree
		if m := sameVerdict(ref, full[:start+nstar], ro, re, st, full[:start+i], o, e, start); m != "" {
			return viol("%s: definitive at prefix %d (%d, %v); with %d more bytes of the same input: %s\nprefix=%s\nextension=%s",
				cfg.Kind, nstar, ro-start, re, i-nstar, m, B(full[start:start+nstar]), B(full[start+nstar:start+i])).with(true, classes...)
		}
	}
	if nstar < 0 {
		return ok(false, append(classes, "never-definitive")...)
	}
	nontriv := nstar < n
	// foreign suffixes near the boundary
	for d := 0; d <= 4 && nstar+d <= n; d++ {
		p := full[: start+nstar+d : start+nstar+d]
		for _, s := range cs.Sfx {
			if len(s) == 0 {
				continue
			}
			ext := append(append([]byte{}, p...), s...)
			if len(ext) > 65535 {
				continue
			}
			st, o, e := oneShot(cfg, ext, start, false)
			if m := sameVerdict(ref, full[:start+nstar], ro, re, st, ext, o, e, start); m != "" {
				return viol("%s: definitive at prefix %d (%d, %v); after appending %s to prefix %d: %s\nprefix=%s",
					cfg.Kind, nstar, ro-start, re, s, nstar+d, m, B(p[start:])).with(true, classes...)
			}
			switch s[0] {
			case ' ', '\t', '\r', '\n', '"', '0', '1', '2', '3', '4', '5', '6', '7', '8', '9':
				nontriv = true
			}
		}
	}
	if ref.Success(re) {
		classes = append(classes, "outcome:success")
	} else {
		classes = append(classes, "outcome:error")
	}
	return ok(nontriv, classes...)
}

var stdSuffixes = []B{B(" "), B("\t"), B("\r"), B("\n"), B("\r\n"), B("\r\n "), B("\r\n\t"), B("\n "), B("\r "),
	B("7"), B("\""), B(";"), B(","), B("a"), B("\r\nX"), B("\r\n\r\n"), B(" x"), B("="), B(":"), B("\\")}

func genPremCase(t *rapid.T, kind string) CasePrem {
	cfg := genCfg(t, kind)
	cfg.EndLast = false
	cs := CasePrem{Cfg: cfg}
	if kind == KMsg {
		b, class := genMsgBytes(t, 6)
		cs.Buf, cs.Class = b, "in:"+class
	} else {
		cs.Buf, cs.Class = genFragment(t, cfg)
	}
	if len(cs.Buf) > 600 {
		cs.Buf = cs.Buf[:600]
	}
	cs.Pre = genJunkPrefix(t)
	k := rapid.IntRange(3, 8).Draw(t, "nsfx")
	for i := 0; i < k; i++ {
		if rapid.IntRange(0, 4).Draw(t, "sfxrand") == 0 {
			cs.Sfx = append(cs.Sfx, genFrom(t, "sfx", sipAlphabet, 1, 6))
		} else {
			cs.Sfx = append(cs.Sfx, pick(t, "sfxstd", stdSuffixes...))
		}
	}
	return cs
}

var C03Prem = Register(&Check[CasePrem]{
	Prop: "C03", Name: "C03.prem",
	Gen:  func(t *rapid.T) CasePrem { return genPremCase(t, pick(t, "kind", allKinds...)) },
	Eval: evalPremature,
})

// C03Scope: for every enumerated string every (prefix, continuation) pair inside
// the bound is covered by the natural-continuation clause.
var C03Scope = Register(&Check[CaseAllCuts]{
	Prop: "C03", Name: "C03.scope",
	Eval: func(cs CaseAllCuts) Result {
		return evalPremature(CasePrem{Cfg: cs.Cfg, Pre: cs.Pre, Buf: cs.Buf})
	},
})

func c03Scopes(depth int) []Scope {
	var out []Scope
	for _, s := range append(scopes(depth), msgScopes(depth)...) {
		if s.Cfg.EndLast {
			continue
		}
		out = append(out, s)
	}
	return out
}

// CaseLargePrem: one of the constructed large messages (large.go), cut at one position. A definitive verdict on the
// prefix must be the verdict (and values) of the complete message; the quadratic all-prefixes scan of C03.prem is
// not affordable at this size, so the cuts are a fixed sparse set around powers of two and the ends.
type CaseLargePrem struct {
	Total int  `json:"total"` // total message size
	Which int  `json:"which"` // index into largeMsgs(Total)
	Cut   int  `json:"cut"`
	Flags uint `json:"flags"`
}

var C03Large = Register(&Check[CaseLargePrem]{
	Prop: "C03", Name: "C03.large",
	Eval: func(c CaseLargePrem) Result {
		ms := largeMsgs(c.Total)
		if c.Which >= len(ms) || c.Cut <= 0 || c.Cut >= len(ms[c.Which]) {
			return Result{Skip: true}
		}
		m := ms[c.Which]
		cfg := Cfg{Kind: KMsg, Flags: c.Flags &^ uint(sipsp.SIPMsgNoMoreDataF), HdrCap: 40, CtCap: -1, PCap: -1}
		st, o, e := oneShot(cfg, m[:c.Cut:c.Cut], 0, false)
		if e == sipsp.ErrHdrMoreBytes {
			if o < 0 || o > c.Cut {
				return viol("prefix %d of the %d-byte message %d: continue offset %d outside the prefix", c.Cut, len(m), c.Which, o)
			}
			return ok(true, "suspended")
		}
		fst, fo, fe := oneShot(cfg, m, 0, false)
		if msg := sameVerdict(st, m[:c.Cut], o, e, fst, m, fo, fe, 0); msg != "" {
			return viol("large message %d (%d bytes, flags %d): definitive at prefix %d (%d, %v); on the complete message: %s", c.Which, len(m), c.Flags, c.Cut, o, e, msg)
		}
		return ok(true, "definitive-before-the-end")
	},
})

func enumLargePrem(emit func(CaseLargePrem) bool) {
	for _, total := range []int{20000, 40000, 65535} {
		n := len(largeMsgs(total))
		for w := 0; w < n; w++ {
			var cuts []int
			for _, p := range []int{255, 256, 257, 1023, 1024, 1025, 4095, 4096, 4097, 8191, 8192, 8193, 16383, 16384, 16385, 16386, 16387,
				32767, 32768, 32769, 49152, 65534} {
				cuts = append(cuts, p)
			}
			for k := 1; k < total; k += 997 {
				cuts = append(cuts, k)
			}
			cuts = append(cuts, total-3, total-2, total-1)
			for _, k := range cuts {
				for _, fl := range []uint{0, uint(sipsp.SIPMsgSkipBodyF)} {
					if !emit(CaseLargePrem{Total: total, Which: w, Cut: k, Flags: fl}) {
						return
					}
				}
			}
		}
	}
}
