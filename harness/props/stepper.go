package props

// stepper.go: one uniform interface over every exported streaming parser.

import (
	"fmt"

	"github.com/intuitivelabs/sipsp"
)

// Parser kinds.
const (
	KMsg        = "msg"        // ParseSIPMsg
	KFLine      = "fline"      // ParseFLine
	KHdrLine    = "hdrline"    // ParseHdrLine, hb == nil
	KHdrLinePV  = "hdrline_pv" // ParseHdrLine, hb == &PHdrVals
	KHeaders    = "headers"    // ParseHeaders, hb == &PHdrVals
	KHeadersNil = "headers_nil"
	KNameAddr   = "nameaddr" // ParseNameAddrPVal(HType) (ParseFromVal for From)
	KContact1   = "contact1" // ParseOneContact
	KPAI1       = "pai1"     // ParseOnePAI
	KContacts   = "contacts" // ParseAllContactValues
	KPAIs       = "pais"     // ParseAllPAIValues
	KCSeq       = "cseq"
	KCallID     = "callid"
	KUInt       = "uint"
	KCLen       = "clen"
	KExpires    = "expires"
	KTokParam   = "tokparam"
	KURIParams  = "uriparams"
	KURIHdrs    = "urihdrs"
	KSkipQuoted = "skipquoted"
)

var allKinds = []string{KMsg, KFLine, KHdrLine, KHdrLinePV, KHeaders, KHeadersNil, KNameAddr,
	KContact1, KPAI1, KContacts, KPAIs, KCSeq, KCallID, KUInt, KCLen, KExpires,
	KTokParam, KURIParams, KURIHdrs, KSkipQuoted}

// subKinds: every stand-alone streaming parser (everything but the message parser).
var subKinds = allKinds[1:]

// Cfg fully describes how a parser object is set up and called.
type Cfg struct {
	Kind    string `json:"kind"`
	Flags   uint   `json:"flags"`    // ParseSIPMsg flags (without NoMoreData) or POptFlags (without InputEnd)
	EndLast bool   `json:"end_last"` // add the end-of-input flag on the last call of a stream
	HdrCap  int    `json:"hdr_cap"`  // header array: -1 = built-in (msg) / nil (headers), else caller array of that size
	CtCap   int    `json:"ct_cap"`   // contact array: -1 = built-in / nil
	PCap    int    `json:"p_cap"`    // URI params / URI headers array: -1 = nil
	HType   int    `json:"htype"`    // header type for KNameAddr
}

// Stepper wraps one parser object.
type Stepper struct {
	cfg Cfg

	msg      *sipsp.PSIPMsg
	fl       *sipsp.PFLine
	hdr      *sipsp.Hdr
	pv       *sipsp.PHdrVals
	hl       *sipsp.HdrLst
	from     *sipsp.PFromBody
	contacts *sipsp.PContacts
	pais     *sipsp.PPAIs
	cseq     *sipsp.PCSeqBody
	callid   *sipsp.PCallIDBody
	uintb    *sipsp.PUIntBody
	tok      *sipsp.PTokParam
	uparams  *sipsp.URIParamsLst
	uhdrs    *sipsp.URIHdrsLst
	vno      int // values parsed, accumulated over calls (list wrappers return it per call)

	// the arrays handed to the object at creation (to check that they are the ones being filled)
	callerHdrs []sipsp.Hdr
	callerCts  []sipsp.PFromBody
}

func mkHdrs(n int) []sipsp.Hdr {
	if n < 0 {
		return nil
	}
	return make([]sipsp.Hdr, n)
}

func mkContacts(n int) []sipsp.PFromBody {
	if n < 0 {
		return nil
	}
	return make([]sipsp.PFromBody, n)
}

// NewStepper creates a new parser object, set up the way a caller would.
func NewStepper(cfg Cfg) *Stepper {
	s := &Stepper{cfg: cfg}
	switch cfg.Kind {
	case KMsg:
		s.msg = &sipsp.PSIPMsg{}
		s.callerHdrs, s.callerCts = mkHdrs(cfg.HdrCap), mkContacts(cfg.CtCap)
		s.msg.Init(nil, s.callerHdrs, s.callerCts)
	case KFLine:
		s.fl = &sipsp.PFLine{}
	case KHdrLine:
		s.hdr = &sipsp.Hdr{}
	case KHdrLinePV:
		s.hdr = &sipsp.Hdr{}
		s.pv = &sipsp.PHdrVals{}
		s.pv.Init(mkContacts(cfg.CtCap))
	case KHeaders:
		s.hl = &sipsp.HdrLst{Hdrs: mkHdrs(cfg.HdrCap)}
		s.pv = &sipsp.PHdrVals{}
		s.pv.Init(mkContacts(cfg.CtCap))
	case KHeadersNil:
		s.hl = &sipsp.HdrLst{Hdrs: mkHdrs(cfg.HdrCap)}
	case KNameAddr, KContact1, KPAI1:
		s.from = &sipsp.PFromBody{}
	case KContacts:
		s.contacts = &sipsp.PContacts{}
		s.contacts.Init(mkContacts(cfg.CtCap))
	case KPAIs:
		s.pais = &sipsp.PPAIs{}
		s.pais.Init()
	case KCSeq:
		s.cseq = &sipsp.PCSeqBody{}
	case KCallID:
		s.callid = &sipsp.PCallIDBody{}
	case KUInt, KCLen, KExpires:
		s.uintb = &sipsp.PUIntBody{}
	case KTokParam:
		s.tok = &sipsp.PTokParam{}
	case KURIParams:
		s.uparams = &sipsp.URIParamsLst{}
		if cfg.PCap >= 0 {
			s.uparams.Init(make([]sipsp.URIParam, cfg.PCap))
		}
	case KURIHdrs:
		s.uhdrs = &sipsp.URIHdrsLst{}
		if cfg.PCap >= 0 {
			s.uhdrs.Init(make([]sipsp.URIHdr, cfg.PCap))
		}
	case KSkipQuoted:
	default:
		panic("unknown stepper kind " + cfg.Kind)
	}
	return s
}

// Step performs one call of the wrapped parser.
func (s *Stepper) Step(buf []byte, offs int, last bool) (int, sipsp.ErrorHdr) {
	c := s.cfg
	pflags := sipsp.POptFlags(c.Flags) &^ sipsp.POptInputEndF
	if c.EndLast && last {
		pflags |= sipsp.POptInputEndF
	}
	switch c.Kind {
	case KMsg:
		f := uint8(c.Flags) &^ sipsp.SIPMsgNoMoreDataF
		if c.EndLast && last {
			f |= sipsp.SIPMsgNoMoreDataF
		}
		return sipsp.ParseSIPMsg(buf, offs, s.msg, f)
	case KFLine:
		return sipsp.ParseFLine(buf, offs, s.fl)
	case KHdrLine:
		return sipsp.ParseHdrLine(buf, offs, s.hdr, nil)
	case KHdrLinePV:
		return sipsp.ParseHdrLine(buf, offs, s.hdr, s.pv)
	case KHeaders:
		return sipsp.ParseHeaders(buf, offs, s.hl, s.pv)
	case KHeadersNil:
		return sipsp.ParseHeaders(buf, offs, s.hl, nil)
	case KNameAddr:
		if sipsp.HdrT(c.HType) == sipsp.HdrFrom {
			return sipsp.ParseFromVal(buf, offs, s.from)
		}
		return sipsp.ParseNameAddrPVal(sipsp.HdrT(c.HType), buf, offs, s.from)
	case KContact1:
		return sipsp.ParseOneContact(buf, offs, s.from)
	case KPAI1:
		return sipsp.ParseOnePAI(buf, offs, s.from)
	case KContacts:
		return sipsp.ParseAllContactValues(buf, offs, s.contacts)
	case KPAIs:
		return sipsp.ParseAllPAIValues(buf, offs, s.pais)
	case KCSeq:
		return sipsp.ParseCSeqVal(buf, offs, s.cseq)
	case KCallID:
		return sipsp.ParseCallIDVal(buf, offs, s.callid)
	case KUInt:
		return sipsp.ParseUIntVal(buf, offs, s.uintb)
	case KCLen:
		return sipsp.ParseCLenVal(buf, offs, s.uintb)
	case KExpires:
		return sipsp.ParseExpiresVal(buf, offs, s.uintb)
	case KTokParam:
		return sipsp.ParseTokenParam(buf, offs, s.tok, pflags)
	case KURIParams:
		o, n, e := sipsp.ParseAllURIParams(buf, offs, s.uparams, pflags)
		s.vno += n
		return o, e
	case KURIHdrs:
		o, n, e := sipsp.ParseAllURIHdrs(buf, offs, s.uhdrs, pflags)
		s.vno += n
		return o, e
	case KSkipQuoted:
		return sipsp.SkipQuoted(buf, offs)
	}
	panic("unreachable")
}

// Success tells whether verdict e is one of the kind's non-error definitive verdicts.
func (s *Stepper) Success(e sipsp.ErrorHdr) bool {
	switch s.cfg.Kind {
	case KMsg:
		return e == 0 || e == sipsp.ErrHdrNoCLen
	case KHdrLine, KHdrLinePV, KHeaders, KHeadersNil:
		return e == 0 || e == sipsp.ErrHdrEmpty
	case KNameAddr, KContact1, KPAI1:
		return e == 0 || e == sipsp.ErrHdrMoreValues
	case KTokParam:
		return e == 0 || e == sipsp.ErrHdrEOH || e == sipsp.ErrHdrMoreValues
	case KURIParams, KURIHdrs:
		return e == 0 || e == sipsp.ErrHdrEOH
	}
	return e == 0
}

// Obj returns the wrapped object (for the dereference walk).
func (s *Stepper) Obj() interface{} {
	switch {
	case s.msg != nil:
		return s.msg
	case s.fl != nil:
		return s.fl
	case s.hl != nil && s.pv != nil:
		return []interface{}{s.hl, s.pv}
	case s.hl != nil:
		return s.hl
	case s.hdr != nil && s.pv != nil:
		return []interface{}{s.hdr, s.pv}
	case s.hdr != nil:
		return s.hdr
	case s.from != nil:
		return s.from
	case s.contacts != nil:
		return s.contacts
	case s.pais != nil:
		return s.pais
	case s.cseq != nil:
		return s.cseq
	case s.callid != nil:
		return s.callid
	case s.uintb != nil:
		return s.uintb
	case s.tok != nil:
		return s.tok
	case s.uparams != nil:
		return s.uparams
	case s.uhdrs != nil:
		return s.uhdrs
	}
	return nil
}

// Deref checks that every exported field (and accessor result) of the object
// can be dereferenced against a buffer of the given length.
func (s *Stepper) Deref(buflen int) string {
	if o := s.Obj(); o != nil {
		if r := derefAll(o, buflen); r != "" {
			return r
		}
	}
	var hl *sipsp.HdrLst
	var pv *sipsp.PHdrVals
	if s.msg != nil {
		hl, pv = &s.msg.HL, &s.msg.PV
	} else {
		hl, pv = s.hl, s.pv
	}
	if hl != nil {
		for t := sipsp.HdrNone; t <= sipsp.HdrOther+1; t++ {
			if h := hl.GetHdr(t); h != nil {
				if r := derefAll(h, buflen); r != "" {
					return fmt.Sprintf("GetHdr(%d)%s", t, r)
				}
			}
		}
	}
	cts := s.contacts
	if pv != nil {
		cts = &pv.Contacts
	}
	if cts != nil {
		for _, i := range []int{0, 1, cts.N - 1, cts.N} {
			if i < 0 {
				continue
			}
			if g := cts.GetContact(i); g != nil {
				if r := derefAll(g, buflen); r != "" {
					return fmt.Sprintf("GetContact(%d)%s", i, r)
				}
			}
		}
	}
	return ""
}

// Snap renders what a caller can read back after verdict e.
func (s *Stepper) Snap(buf []byte, base int, e sipsp.ErrorHdr) string {
	sn := newSnap(buf, base)
	succ := s.Success(e)
	switch s.cfg.Kind {
	case KMsg:
		sn.msg(s.msg, succ)
	case KFLine:
		if succ {
			sn.fline("FL", s.fl)
		}
	case KHdrLine, KHdrLinePV:
		if succ && e == 0 {
			sn.hdr("H", s.hdr)
		}
		if s.pv != nil {
			sn.hdrvals("PV", s.pv, !succ)
		}
	case KHeaders, KHeadersNil:
		sn.hdrlst("HL", s.hl)
		if s.pv != nil {
			sn.hdrvals("PV", s.pv, !succ)
		}
	case KNameAddr, KContact1, KPAI1:
		if succ {
			sn.from("F", s.from)
		}
	case KContacts:
		sn.contacts("C", s.contacts)
	case KPAIs:
		sn.pais("P", s.pais)
	case KCSeq:
		if succ {
			sn.cseq("CS", s.cseq)
		}
	case KCallID:
		if succ {
			sn.callid("CI", s.callid)
		}
	case KUInt, KCLen, KExpires:
		if succ {
			sn.uintb("U", s.uintb)
		}
	case KTokParam:
		if succ {
			sn.tok("T", s.tok)
		}
	case KURIParams:
		sn.kv("vNo", s.vno)
		sn.uriparams("UP", s.uparams)
	case KURIHdrs:
		sn.kv("vNo", s.vno)
		sn.urihdrs("UH", s.uhdrs)
	case KSkipQuoted:
	}
	return sn.String()
}

// ResetObj applies the object's documented reset operation.
// useInit selects Init where the type has one (PSIPMsg, PHdrVals, PPAIs).
func (s *Stepper) ResetObj(useInit bool) {
	switch s.cfg.Kind {
	case KMsg:
		if useInit {
			s.msg.Init(nil, s.msg.HL.Hdrs, s.msg.PV.Contacts.Vals)
		} else {
			s.msg.Reset()
		}
	case KFLine:
		s.fl.Reset()
	case KHdrLine:
		s.hdr.Reset()
	case KHdrLinePV:
		s.hdr.Reset()
		if useInit {
			s.pv.Init(s.pv.Contacts.Vals)
		} else {
			s.pv.Reset()
		}
	case KHeaders:
		s.hl.Reset()
		if useInit {
			s.pv.Init(s.pv.Contacts.Vals)
		} else {
			s.pv.Reset()
		}
	case KHeadersNil:
		s.hl.Reset()
	case KNameAddr, KContact1, KPAI1:
		s.from.Reset()
	case KContacts:
		s.contacts.Reset()
	case KPAIs:
		if useInit {
			s.pais.Init()
		} else {
			s.pais.Reset()
		}
	case KCSeq:
		s.cseq.Reset()
	case KCallID:
		s.callid.Reset()
	case KUInt, KCLen, KExpires:
		s.uintb.Reset()
	case KTokParam:
		s.tok.Reset()
	case KURIParams:
		s.uparams.Reset()
	case KURIHdrs:
		s.uhdrs.Reset()
	}
	s.vno = 0
}

// oneShot parses buf[:n] from offs with a fresh object and the end flag as given.
func oneShot(cfg Cfg, buf []byte, offs int, last bool) (*Stepper, int, sipsp.ErrorHdr) {
	s := NewStepper(cfg)
	o, e := s.Step(buf, offs, last)
	return s, o, e
}
