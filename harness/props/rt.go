// Package props holds the property checks for intuitivelabs/sipsp.
//
// rt.go: the small runtime shared by all checks: case encoding, result type,
// statistics collection, known-findings filter, replay files.
package props

import (
	"encoding/binary"
	"encoding/json"
	"fmt"
	"hash/fnv"
	"os"
	"path/filepath"
	"runtime/debug"
	"sort"
	"strconv"
	"sync"
)

// B is a byte string that (un)marshals as a Go-quoted ASCII string, so that
// arbitrary bytes survive the JSON replay files and stay readable.
type B []byte

func (b B) MarshalJSON() ([]byte, error) {
	q := strconv.QuoteToASCII(string(b))
	return json.Marshal(q[1 : len(q)-1])
}

func (b *B) UnmarshalJSON(d []byte) error {
	var s string
	if err := json.Unmarshal(d, &s); err != nil {
		return err
	}
	u, err := strconv.Unquote(`"` + s + `"`)
	if err != nil {
		return fmt.Errorf("bad B string %q: %v", s, err)
	}
	*b = B(u)
	return nil
}

func (b B) String() string { return strconv.QuoteToASCII(string(b)) }

// Result is what an oracle returns for one case.
type Result struct {
	Viol    bool     // property violated
	Msg     string   // explanation of the violation
	Key     string   // known-finding key this violation matches ("" if none)
	NonTriv bool     // the case is non-trivial by the property's stated rule
	Classes []string // class labels for the distribution report
	Skip    bool     // case outside the property's domain (counted, not evaluated)
}

func ok(nontriv bool, classes ...string) Result {
	return Result{NonTriv: nontriv, Classes: classes}
}

func viol(format string, a ...interface{}) Result {
	return Result{Viol: true, Msg: fmt.Sprintf(format, a...), NonTriv: true}
}

func (r Result) withKey(k string) Result { r.Key = k; return r }

func (r Result) with(nontriv bool, classes ...string) Result {
	r.NonTriv = r.NonTriv || nontriv
	r.Classes = append(r.Classes, classes...)
	return r
}

// ViolRec records one violation.
type ViolRec struct {
	Check  string `json:"check"`
	Msg    string `json:"msg"`
	Replay string `json:"replay"`
}

// Stats is the per-check-name statistics record that is written for the driver.
type Stats struct {
	Prop        string         `json:"prop"`
	Check       string         `json:"check"`
	Evaluations int64          `json:"evaluations"`
	Skipped     int64          `json:"skipped"`
	NonTrivial  int64          `json:"nontrivial"`      // non-trivial evaluations (not de-duplicated)
	EnumNonTriv int64          `json:"enum_nontrivial"` // distinct by construction (enumerators)
	Hashes      []uint64       `json:"hashes"`          // (unused: see HashFile)
	HashFile    string         `json:"hash_file"`       // binary file with the hashes of the distinct non-trivial generated cases
	HashCount   int            `json:"hash_count"`
	Classes     map[string]int `json:"classes"`
	Samples     []interface{}  `json:"samples"`
	Excluded    map[string]int `json:"excluded_known"`
	Violations  []ViolRec      `json:"violations"`
	Exhaustive  []string       `json:"exhaustive_parts"`
	Requested   int64          `json:"requested"` // cases requested (0 = n/a)
}

// Collector accumulates Stats for one check name. Safe for concurrent use.
type Collector struct {
	mu     sync.Mutex
	st     Stats
	hashes map[uint64]struct{}
	failed bool // a violation has been seen: later evaluations are shrink re-runs
}

var (
	collMu     sync.Mutex
	collectors = map[string]*Collector{}
	knownOpen  = map[string]bool{}
	knownLoad  sync.Once
)

const maxSamples = 6
const maxHashes = 3000000 // per process; beyond it distinct non-trivial cases are under-counted (conservative)

func getCollector(prop, check string) *Collector {
	collMu.Lock()
	defer collMu.Unlock()
	c := collectors[check]
	if c == nil {
		c = &Collector{hashes: map[uint64]struct{}{}}
		c.st.Prop = prop
		c.st.Check = check
		c.st.Classes = map[string]int{}
		c.st.Excluded = map[string]int{}
		collectors[check] = c
	}
	return c
}

func loadKnown() {
	knownLoad.Do(func() {
		p := os.Getenv("VERIF_KNOWN")
		if p == "" {
			p = "/verif/known_findings.json"
		}
		d, err := os.ReadFile(p)
		if err != nil {
			return
		}
		var kf struct {
			Findings []struct {
				Property string `json:"property"`
				Key      string `json:"key"`
				Status   string `json:"status"`
			} `json:"findings"`
		}
		if json.Unmarshal(d, &kf) != nil {
			return
		}
		for _, f := range kf.Findings {
			if f.Status == "open" {
				knownOpen[f.Key] = true
			}
		}
	})
}

// isKnown reports whether a violation with finding key k is suppressed.
func isKnown(k string) bool {
	loadKnown()
	return k != "" && knownOpen[k]
}

func hashBytes(b []byte) uint64 {
	h := fnv.New64a()
	h.Write(b)
	return h.Sum64()
}

// record registers one evaluated case. It returns true if the case is an
// unsuppressed violation (the caller then fails the test).
// caseJSON may be nil for enumerators (distinct by construction).
func (c *Collector) record(r Result, caseVal interface{}, enum bool) bool {
	c.mu.Lock()
	defer c.mu.Unlock()
	if c.failed {
		// shrinking re-runs: do not count
		return r.Viol && !isKnown(r.Key)
	}
	if r.Skip {
		c.st.Skipped++
		return false
	}
	c.st.Evaluations++
	for _, cl := range r.Classes {
		c.st.Classes[cl]++
	}
	if r.Viol && isKnown(r.Key) {
		c.st.Excluded[r.Key]++
		return false
	}
	if r.NonTriv {
		c.st.NonTrivial++
		if enum {
			c.st.EnumNonTriv++
			if len(c.st.Samples) < maxSamples && (c.st.EnumNonTriv%9973 == 1) {
				c.st.Samples = append(c.st.Samples, caseVal)
			}
		} else if caseVal != nil {
			j, err := json.Marshal(caseVal)
			if err == nil && len(c.hashes) < maxHashes {
				h := hashBytes(j)
				if _, dup := c.hashes[h]; !dup {
					c.hashes[h] = struct{}{}
					if len(c.st.Samples) < maxSamples && (len(c.hashes) <= 2 || len(c.hashes)%37 == 0) {
						c.st.Samples = append(c.st.Samples, json.RawMessage(j))
					}
				}
			}
		}
	}
	if r.Viol {
		c.failed = true
		return true
	}
	return false
}

// merge adds the counters of a worker-local collector (used by parallel enumerators).
func (c *Collector) addExhaustive(desc string) {
	c.mu.Lock()
	c.st.Exhaustive = append(c.st.Exhaustive, desc)
	c.mu.Unlock()
}

// replayFile is the on-disk form of a saved case.
type replayFile struct {
	Property string          `json:"property"`
	Check    string          `json:"check"`
	Msg      string          `json:"msg,omitempty"`
	Case     json.RawMessage `json:"case"`
}

func replayDir() string {
	d := os.Getenv("VERIF_REPLAY_DIR")
	if d == "" {
		d = "/verif/replays"
	}
	return d
}

// saveViolation writes the replay file for a violating case and records it.
func (c *Collector) saveViolation(caseVal interface{}, msg string) string {
	j, err := json.Marshal(caseVal)
	if err != nil {
		j = []byte(`null`)
	}
	short := msg
	if len(short) > 700 {
		short = short[:700] + "..."
	}
	rf := replayFile{Property: c.st.Prop, Check: c.st.Check, Msg: short, Case: j}
	out, _ := json.MarshalIndent(rf, "", " ")
	dir := filepath.Join(replayDir(), c.st.Prop)
	os.MkdirAll(dir, 0o755)
	name := fmt.Sprintf("viol-%s-%016x.json", sanitize(c.st.Check), hashBytes(j))
	p := filepath.Join(dir, name)
	os.WriteFile(p, append(out, '\n'), 0o644)
	c.mu.Lock()
	c.st.Violations = append(c.st.Violations, ViolRec{Check: c.st.Check, Msg: msg, Replay: p})
	c.mu.Unlock()
	return p
}

func sanitize(s string) string {
	o := []byte(s)
	for i, ch := range o {
		if !(ch >= 'a' && ch <= 'z' || ch >= 'A' && ch <= 'Z' || ch >= '0' && ch <= '9') {
			o[i] = '_'
		}
	}
	return string(o)
}

// writeStats dumps all collectors to the file named by VERIF_STATS.
func writeStats() {
	p := os.Getenv("VERIF_STATS")
	if p == "" {
		return
	}
	collMu.Lock()
	defer collMu.Unlock()
	all := []Stats{}
	names := make([]string, 0, len(collectors))
	for n := range collectors {
		names = append(names, n)
	}
	sort.Strings(names)
	for _, n := range names {
		c := collectors[n]
		c.mu.Lock()
		st := c.st
		// hashes go to a binary side file (8 bytes each, little endian): JSON would be too slow for millions
		st.Hashes = nil
		st.HashCount = len(c.hashes)
		if len(c.hashes) > 0 {
			st.HashFile = fmt.Sprintf("%s.%s.h64", p, sanitize(n))
			buf := make([]byte, 0, 8*len(c.hashes))
			for h := range c.hashes {
				buf = binary.LittleEndian.AppendUint64(buf, h)
			}
			os.WriteFile(st.HashFile, buf, 0o644)
		}
		c.mu.Unlock()
		if st.Violations == nil {
			st.Violations = []ViolRec{}
		}
		if st.Exhaustive == nil {
			st.Exhaustive = []string{}
		}
		if st.Samples == nil {
			st.Samples = []interface{}{}
		}
		all = append(all, st)
	}
	d, _ := json.Marshal(all)
	os.WriteFile(p, d, 0o644)
}

// guard runs f and converts a panic into a violation Result.
func guard(f func() Result) (r Result) {
	defer func() {
		if e := recover(); e != nil {
			r = viol("panic: %v\n%s", e, trimStack(debug.Stack()))
			r.Classes = append(r.Classes, "panic")
		}
	}()
	return f()
}

func trimStack(s []byte) string {
	if len(s) > 1400 {
		s = s[:1400]
	}
	return string(s)
}

func envInt(name string, def int) int {
	if v := os.Getenv(name); v != "" {
		if n, err := strconv.Atoi(v); err == nil {
			return n
		}
	}
	return def
}

func sprintf(format string, a ...interface{}) string { return fmt.Sprintf(format, a...) }
