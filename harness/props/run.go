package props

// run.go: check registry and the three ways a check is driven: rapid
// generation, enumeration, replay of a saved case.

import (
	"encoding/json"
	"fmt"
	"os"
	"runtime"
	"sync"
	"sync/atomic"
	"testing"

	"pgregory.net/rapid"
)

// Check ties a generator and an oracle together under a name.
type Check[C any] struct {
	Prop string // property id, e.g. "C01"
	Name string // check name, e.g. "C01.msg"
	Gen  func(*rapid.T) C
	Eval func(C) Result // pure function: the oracle

	colOnce sync.Once
	col     *Collector
}

type replayFn func(raw json.RawMessage) (Result, error)

var (
	regMu    sync.Mutex
	registry = map[string]replayFn{}
	regProp  = map[string]string{}
)

// Register makes the check replayable by name.
func Register[C any](c *Check[C]) *Check[C] {
	regMu.Lock()
	defer regMu.Unlock()
	registry[c.Name] = func(raw json.RawMessage) (Result, error) {
		var v C
		if err := json.Unmarshal(raw, &v); err != nil {
			return Result{}, err
		}
		return guard(func() Result { return c.Eval(v) }), nil
	}
	regProp[c.Name] = c.Prop
	return c
}

func (c *Check[C]) coll() *Collector {
	c.colOnce.Do(func() { c.col = getCollector(c.Prop, c.Name) })
	return c.col
}

// RunRapid drives the check with rapid-generated cases. The number of cases
// and the PRNG value come from the -rapid.* flags set by the driver.
func (c *Check[C]) RunRapid(t *testing.T) {
	col := c.coll()
	var last *C
	var lastMsg string
	t.Cleanup(func() {
		if last != nil {
			p := col.saveViolation(*last, lastMsg)
			fmt.Printf("VIOLATION-FOUND property=%s check=%s replay=%s\n", c.Prop, c.Name, p)
		}
	})
	ws := newWatchSlot()
	rapid.Check(t, func(rt *rapid.T) {
		cs := c.Gen(rt)
		ws.begin(col, c.Name, cs)
		r := guard(func() Result { return c.Eval(cs) })
		ws.end()
		if col.record(r, cs, false) {
			cc := cs
			last = &cc
			lastMsg = r.Msg
			rt.Fatalf("%s violated: %s", c.Name, r.Msg)
		}
	})
}

// localStats is a worker-local accumulator for enumerations (no locking).
type localStats struct {
	evals, skipped, nontriv int64
	classes                 map[string]int
	excluded                map[string]int
	samples                 []interface{}
	ws                      *watchSlot
}

func (c *Collector) mergeLocal(l *localStats) {
	c.mu.Lock()
	defer c.mu.Unlock()
	c.st.Evaluations += l.evals
	c.st.Skipped += l.skipped
	c.st.NonTrivial += l.nontriv
	c.st.EnumNonTriv += l.nontriv
	for k, v := range l.classes {
		c.st.Classes[k] += v
	}
	for k, v := range l.excluded {
		c.st.Excluded[k] += v
	}
	for _, s := range l.samples {
		if len(c.st.Samples) < maxSamples {
			c.st.Samples = append(c.st.Samples, s)
		}
	}
}

// enumState is shared by the workers of one enumeration.
type enumState struct {
	stop  atomic.Bool
	mu    sync.Mutex
	nviol int
}

// evalEnum evaluates one enumerated case into the local accumulator; it
// returns false when the enumeration should stop.
func (c *Check[C]) evalEnum(t *testing.T, es *enumState, l *localStats, cs C) bool {
	if es.stop.Load() {
		return false
	}
	if l.ws == nil {
		l.ws = newWatchSlot()
	}
	l.ws.begin(c.coll(), c.Name, cs)
	r := guard(func() Result { return c.Eval(cs) })
	l.ws.end()
	if r.Skip {
		l.skipped++
		return true
	}
	l.evals++
	for _, cl := range r.Classes {
		l.classes[cl]++
	}
	if r.Viol {
		if isKnown(r.Key) {
			l.excluded[r.Key]++
			return true
		}
		es.mu.Lock()
		es.nviol++
		first := es.nviol <= 3
		if es.nviol >= 3 {
			es.stop.Store(true)
		}
		es.mu.Unlock()
		if first {
			col := c.coll()
			p := col.saveViolation(cs, r.Msg)
			fmt.Printf("VIOLATION-FOUND property=%s check=%s replay=%s\n", c.Prop, c.Name, p)
			t.Errorf("%s violated: %s", c.Name, r.Msg)
		}
		return !es.stop.Load()
	}
	if r.NonTriv {
		l.nontriv++
		if len(l.samples) < 2 && l.nontriv%4099 == 1 {
			l.samples = append(l.samples, cs)
		}
	}
	return true
}

func newLocal() *localStats {
	return &localStats{classes: map[string]int{}, excluded: map[string]int{}}
}

func workers() int {
	nw := runtime.GOMAXPROCS(0)
	if w := envInt("VERIF_WORKERS", 0); w > 0 {
		nw = w
	}
	return nw
}

// RunShards drives the check over an enumerated space that is split in
// nshards independent parts; produce(shard, emit) must call emit for every
// case of that part and stop when emit returns false. Cases must be distinct
// by construction. Parts are processed on all cores.
func (c *Check[C]) RunShards(t *testing.T, desc string, exhaustive bool, nshards int,
	produce func(shard int, emit func(C) bool)) {
	jobs := make([]func(emit func(C) bool), nshards)
	for s := 0; s < nshards; s++ {
		s := s
		jobs[s] = func(emit func(C) bool) { produce(s, emit) }
	}
	var descs []string
	if exhaustive {
		descs = []string{desc}
	}
	c.RunJobs(t, descs, jobs)
}

// RunJobs runs independent enumeration jobs on all cores; descs are recorded
// as exhaustively covered parts if no violation was found.
func (c *Check[C]) RunJobs(t *testing.T, descs []string, jobs []func(emit func(C) bool)) {
	col := c.coll()
	es := &enumState{}
	var wg sync.WaitGroup
	sem := make(chan struct{}, workers())
	for _, job := range jobs {
		wg.Add(1)
		sem <- struct{}{}
		go func(job func(emit func(C) bool)) {
			defer wg.Done()
			defer func() { <-sem }()
			l := newLocal()
			job(func(cs C) bool { return c.evalEnum(t, es, l, cs) })
			col.mergeLocal(l)
		}(job)
	}
	wg.Wait()
	if es.nviol == 0 {
		for _, d := range descs {
			col.addExhaustive(d)
		}
	}
}

// RunCases is RunShards for a single sequential producer; evaluation is
// still spread over all cores.
func (c *Check[C]) RunCases(t *testing.T, desc string, exhaustive bool, produce func(emit func(C) bool)) {
	col := c.coll()
	es := &enumState{}
	nw := workers()
	ch := make(chan []C, nw*2)
	var wg sync.WaitGroup
	for w := 0; w < nw; w++ {
		wg.Add(1)
		go func() {
			defer wg.Done()
			l := newLocal()
			for batch := range ch {
				for _, cs := range batch {
					if !c.evalEnum(t, es, l, cs) {
						break
					}
				}
			}
			col.mergeLocal(l)
		}()
	}
	const bsz = 256
	batch := make([]C, 0, bsz)
	produce(func(cs C) bool {
		if es.stop.Load() {
			return false
		}
		batch = append(batch, cs)
		if len(batch) == bsz {
			ch <- batch
			batch = make([]C, 0, bsz)
		}
		return true
	})
	if len(batch) > 0 {
		ch <- batch
	}
	close(ch)
	wg.Wait()
	if exhaustive && es.nviol == 0 {
		col.addExhaustive(desc)
	}
}

// RunOne evaluates a single constructed case (fixed corpus entries).
func (c *Check[C]) RunOne(t *testing.T, cs C) {
	col := c.coll()
	r := guard(func() Result { return c.Eval(cs) })
	if r.Viol && !isKnown(r.Key) {
		col.mu.Lock()
		col.st.Evaluations++
		col.mu.Unlock()
		p := col.saveViolation(cs, r.Msg)
		fmt.Printf("VIOLATION-FOUND property=%s check=%s replay=%s\n", c.Prop, c.Name, p)
		t.Errorf("%s violated: %s", c.Name, r.Msg)
		return
	}
	col.record(r, cs, false)
}

// replayOne re-runs a saved case without any library involved.
// It returns (violated, known-key, message).
func replayOne(path string) (bool, string, string, error) {
	d, err := os.ReadFile(path)
	if err != nil {
		return false, "", "", err
	}
	var rf replayFile
	if err := json.Unmarshal(d, &rf); err != nil {
		return false, "", "", err
	}
	regMu.Lock()
	fn := registry[rf.Check]
	regMu.Unlock()
	if fn != nil {
		ws := newWatchSlot()
		ws.begin(getCollector(rf.Property, rf.Check), rf.Check, rf.Case)
		defer ws.end()
	}
	if fn == nil {
		return false, "", "", fmt.Errorf("unknown check %q in %s", rf.Check, path)
	}
	r, err := fn(rf.Case)
	if err != nil {
		return false, "", "", err
	}
	col := getCollector(rf.Property, rf.Check)
	col.mu.Lock()
	col.st.Classes["replayed"]++
	col.mu.Unlock()
	return r.Viol, r.Key, r.Msg, nil
}
