package props

import "testing"

func TestC11Rapid(t *testing.T) { C11Shift.RunRapid(t) }
func TestC11Scope(t *testing.T) {
	d := envInt("VERIF_DEPTH", 0)
	runScopes(t, C11Scope, append(scopes(d), msgScopes(d)...))
}
func TestC12Rapid(t *testing.T)    { C12Reset.RunRapid(t) }
func TestC12URIRapid(t *testing.T) { C12URI.RunRapid(t) }
func TestC13Rapid(t *testing.T)    { C13Cap.RunRapid(t) }

// TestC13Corpus: every corpus message under every header x contact capacity pair 0..N+1.
func TestC13Corpus(t *testing.T) {
	var jobs []func(emit func(CaseCap) bool)
	for _, m := range corpusMsgs() {
		m := m
		jobs = append(jobs, func(emit func(CaseCap) bool) {
			for h := -1; h <= 20; h++ {
				for c := -1; c <= 14; c++ {
					for _, fl := range []uint{0, 1} {
						cfg := withFlags(withCaps(scopeCfg(KMsg), h, c, -1), fl, false)
						if !emit(CaseCap{Cfg: cfg, Buf: m}) {
							return
						}
						every := make([]int, 0, len(m))
						for i := 7; i < len(m); i += 7 {
							every = append(every, i)
						}
						if !emit(CaseCap{Cfg: cfg, Buf: m, Sched: every}) {
							return
						}
					}
				}
			}
		})
	}
	C13Cap.RunJobs(t, []string{"19 corpus messages x header capacity -1..20 x contact capacity -1..14 x flags {0,skip-body} x {one-shot, 7-byte steps}"}, jobs)
}

func TestC13MultiRapid(t *testing.T) { C13Multi.RunRapid(t) }

// TestC12Scope: small-scope history enumeration (first use x abandon point x Reset/Init x probe).
func TestC12Scope(t *testing.T) {
	var jobs []func(emit func(CaseReset) bool)
	var descs []string
	for _, sc := range c12ScopeList(envInt("VERIF_DEPTH", 0)) {
		sc := sc
		descs = append(descs, sc.desc())
		for sh := 0; sh < 8; sh++ {
			sh := sh
			jobs = append(jobs, func(emit func(CaseReset) bool) { sc.produce(sh, 8, emit) })
		}
	}
	C12Scope.RunJobs(t, descs, jobs)
}
