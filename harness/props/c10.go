package props

// C10: numeric values are exact or rejected, never silently wrapped.

import (
	"bytes"
	"fmt"
	"math/big"

	"github.com/intuitivelabs/sipsp"
	"pgregory.net/rapid"
)

// CaseNum: a digit string placed in one numeric position.
type CaseNum struct {
	Pos    string `json:"pos"`    // cseq | clen | clen_msg | expires | expires_msg | ctexp | q | port_hostport | port_userhost | port_params
	Digits B      `json:"digits"` // the integer digits
	Frac   B      `json:"frac"`   // q only: fraction digits
	Dot    bool   `json:"dot"`    // q only: a '.' is present
	Cut    int    `json:"cut"`    // cut the stream after this many digits (0 = one-shot)
}

// stream2 runs a stepper one-shot or in two steps.
func stream2(cfg Cfg, buf []byte, cut int) (*Stepper, int, sipsp.ErrorHdr) {
	st := NewStepper(cfg)
	o := 0
	if cut > 0 && cut < len(buf) {
		o2, e := st.Step(buf[:cut:cut], 0, false)
		if e != sipsp.ErrHdrMoreBytes {
			return st, o2, e
		}
		o = o2
	}
	o2, e := st.Step(buf, o, true)
	return st, o2, e
}

func isErrVerdict(e sipsp.ErrorHdr) bool {
	return e != 0 && e != sipsp.ErrHdrMoreBytes && e != sipsp.ErrHdrMoreValues && e != sipsp.ErrHdrEOH && e != sipsp.ErrHdrEmpty
}

func evalNum(c CaseNum) Result {
	d := []byte(c.Digits)
	if !allDigits(d) || len(d) > 1200 {
		return Result{Skip: true}
	}
	v := decToBig(string(d))
	nt := len(d) >= 5 || v.Cmp(big2p16) >= 0 || (len(d) > 1 && d[0] == '0')
	classes := []string{"pos:" + c.Pos}
	switch {
	case v.Cmp(big2p32) >= 0:
		classes = append(classes, "v>=2^32")
	case v.Cmp(big2p24) > 0:
		classes = append(classes, "2^24<v<2^32")
	case v.Cmp(big2p16) >= 0:
		classes = append(classes, "2^16<=v<=2^24")
	default:
		classes = append(classes, "v<2^16")
	}
	fail := func(format string, a ...interface{}) Result {
		return viol("%s %s: "+format, append([]interface{}{c.Pos, c.Digits}, a...)...).with(true, classes...)
	}
	cutAt := func(prefixLen int) int {
		if c.Cut <= 0 || c.Cut >= len(d) {
			return 0
		}
		return prefixLen + c.Cut
	}
	switch c.Pos {
	case "cseq":
		buf := []byte(" " + string(d) + " INVITE\r\nX")
		st, o, e := stream2(scopeCfg(KCSeq), buf, cutAt(1))
		inRange := v.Cmp(bigMaxU32) <= 0
		if e == 0 {
			if !inRange {
				return fail("accepted with CSeqNo = %d, the value does not fit 32 bits and must be rejected", st.cseq.CSeqNo)
			}
			if new(big.Int).SetUint64(uint64(st.cseq.CSeqNo)).Cmp(v) != 0 || !bytes.Equal(st.cseq.CSeq.Get(buf), d) {
				return fail("accepted with CSeqNo = %d for digits %q", st.cseq.CSeqNo, st.cseq.CSeq.Get(buf))
			}
		} else if !isErrVerdict(e) {
			return fail("verdict (%d, %v)", o, e)
		} else if inRange && len(d) <= 10 {
			return fail("in-range CSeq rejected: (%d, %v)", o, e)
		}
	case "clen", "clen_msg", "expires", "expires_msg":
		isCL := c.Pos == "clen" || c.Pos == "clen_msg"
		var ub *sipsp.PUIntBody
		var e sipsp.ErrorHdr
		var o int
		var buf []byte
		if c.Pos == "clen" || c.Pos == "expires" {
			buf = []byte(" " + string(d) + " \r\nX")
			kind := KExpires
			if isCL {
				kind = KCLen
			}
			var st *Stepper
			st, o, e = stream2(scopeCfg(kind), buf, cutAt(1))
			ub = st.uintb
		} else {
			name := "Expires: "
			if isCL {
				name = "l: "
			}
			head := "INVITE sip:a SIP/2.0\r\n" + name
			buf = []byte(head + string(d) + "\r\n\r\n")
			cfg := withFlags(scopeCfg(KMsg), uint(sipsp.SIPMsgSkipBodyF), false)
			var st *Stepper
			st, o, e = stream2(cfg, buf, cutAt(len(head)))
			if isCL {
				ub = &st.msg.PV.CLen
			} else {
				ub = &st.msg.PV.Expires
			}
		}
		limit := bigMaxU32
		maxDigits := 1 << 30
		if isCL {
			limit = big2p24
			maxDigits = 9
		}
		inRange := v.Cmp(limit) <= 0
		if e == 0 {
			if !inRange {
				return fail("accepted with value %d, above the documented limit %v: must be rejected", ub.UIVal, limit)
			}
			if new(big.Int).SetUint64(uint64(ub.UIVal)).Cmp(v) != 0 || !bytes.Equal(ub.SVal.Get(buf), d) {
				return fail("accepted with value %d for digits %q", ub.UIVal, ub.SVal.Get(buf))
			}
		} else if !isErrVerdict(e) {
			return fail("verdict (%d, %v)", o, e)
		} else if inRange && len(d) <= maxDigits && !(isCL && len(d) > 9) {
			return fail("in-range value rejected: (%d, %v)", o, e)
		}
	case "ctexp":
		buf := []byte("<sip:a@b>;expires=" + string(d) + "\r\nX")
		cfg := withHType(scopeCfg(KNameAddr), sipsp.HdrContact)
		st, o, e := stream2(cfg, buf, cutAt(len("<sip:a@b>;expires=")))
		if e != 0 {
			return fail("contact value not accepted: (%d, %v)", o, e)
		}
		want := ^uint32(0)
		if v.Cmp(bigMaxU32) <= 0 {
			want = uint32(v.Uint64())
		}
		if !st.from.HasExpires || st.from.Expires != want {
			return fail("HasExpires/Expires = %v/%d, want true/%d (saturating at 2^32-1)", st.from.HasExpires, st.from.Expires, want)
		}
	case "q":
		if !allDigits(c.Frac) && len(c.Frac) > 0 {
			return Result{Skip: true}
		}
		qs := string(d)
		if c.Dot {
			qs += "." + string(c.Frac)
		}
		buf := []byte("<sip:a@b>;q=" + qs + "\r\nX")
		cfg := withHType(scopeCfg(KNameAddr), sipsp.HdrContact)
		st, o, e := stream2(cfg, buf, cutAt(len("<sip:a@b>;q=")))
		if e != 0 {
			return fail("contact value with q=%s not accepted: (%d, %v)", qs, o, e)
		}
		// valid: 0 <= q <= 1 with at most three decimals
		valid := len(c.Frac) <= 3 && (v.Sign() == 0 || (v.Cmp(big.NewInt(1)) == 0 && decToBig("0"+string(c.Frac)).Sign() == 0))
		if valid {
			f := 0
			scale := 100
			for _, ch := range c.Frac {
				f += int(ch-'0') * scale
				scale /= 10
			}
			want := uint16(int(v.Int64())*1000 + f)
			if st.from.Q != want || st.from.ParamErr != 0 {
				return fail("q=%s: Q = %d ParamErr = %v, want Q = %d and no error", qs, st.from.Q, st.from.ParamErr, want)
			}
		} else if st.from.Q != 0 || st.from.ParamErr == 0 {
			return fail("q=%s is outside [0,1] / has more than 3 decimals: Q = %d ParamErr = %v, want Q unset (0) and flagged", qs, st.from.Q, st.from.ParamErr)
		}
		nt = true
		if valid {
			classes = append(classes, "q:valid")
		} else {
			classes = append(classes, "q:invalid")
		}
	case "port_hostport", "port_userhost", "port_params", "port_hdrs", "port_hostport_params", "port_digitpass", "port_digitpass6", "port_numpass", "port_numpass6":
		var uri string
		switch c.Pos {
		case "port_hostport":
			uri = "sip:host.example:" + string(d)
		case "port_userhost":
			uri = "sip:user@host.example:" + string(d)
		case "port_params":
			uri = "sips:u:p@1.2.3.4:" + string(d) + ";transport=tcp"
		case "port_hdrs":
			uri = "sip:[::1]:" + string(d) + "?a=b"
		case "port_digitpass": // password that starts with digits: they must not leak into the port
			uri = "sip:bob:4you@h.example:" + string(d)
		case "port_digitpass6":
			uri = "sips:bob:65x@[::1]:" + string(d) + ";lr"
		case "port_numpass": // an all-digit password looks like a port until the '@'
			uri = "sip:bob:6553@h.example:" + string(d) + "?x=y"
		case "port_numpass6":
			uri = "sip:u:7@[2001:db8::1]:" + string(d)
		default:
			uri = "sip:host:" + string(d) + ";lr"
		}
		var u sipsp.PsipURI
		e, pos := sipsp.ParseURI([]byte(uri), &u)
		inRange := v.Cmp(big.NewInt(65535)) <= 0
		if e == 0 {
			if !inRange {
				return fail("%s accepted with PortNo = %d: a port above 65535 must be rejected", uri, u.PortNo)
			}
			if new(big.Int).SetUint64(uint64(u.PortNo)).Cmp(v) != 0 || !bytes.Equal(u.Port.Get([]byte(uri)), d) {
				return fail("%s accepted with PortNo = %d, Port = %q", uri, u.PortNo, u.Port.Get([]byte(uri)))
			}
		} else if inRange {
			return fail("%s with an in-range port rejected: (%v, %d)", uri, e, pos)
		}
	default:
		return Result{Skip: true}
	}
	return ok(nt, classes...)
}

var numPositions = []string{"cseq", "clen", "clen_msg", "expires", "expires_msg", "ctexp", "q", "port_hostport", "port_userhost", "port_params", "port_hdrs", "port_hostport_params", "port_digitpass", "port_digitpass6", "port_numpass", "port_numpass6"}

var C10Num = Register(&Check[CaseNum]{
	Prop: "C10", Name: "C10.num",
	Gen: func(t *rapid.T) CaseNum {
		c := CaseNum{Pos: pick(t, "pos", numPositions...)}
		c.Digits = genDigits(t, "digits")
		if c.Pos == "q" {
			switch weighted(t, "q_k", 5, 3) {
			case 0:
				c.Digits = B(pick(t, "qi", "0", "1", "0", "1", "2", "00", "01", "10", "9"))
			}
			c.Dot = rapid.IntRange(0, 3).Draw(t, "dot") != 0
			if c.Dot {
				c.Frac = genFrom(t, "frac", "0000123456789", 0, 6)
			}
		}
		if len(c.Digits) > 1 && rapid.Bool().Draw(t, "cut") {
			c.Cut = rapid.IntRange(1, len(c.Digits)-1).Draw(t, "cutpos")
		}
		return c
	},
	Eval: evalNum,
})

// enumPorts: all digit strings of length 1..n as URI ports, two syntactic paths.
func enumDigitStrings(n int, shard, nshards int, emit func(B) bool) {
	for l := 1; l <= n; l++ {
		total := 1
		for i := 0; i < l; i++ {
			total *= 10
		}
		for x := shard; x < total; x += nshards {
			s := fmt.Sprintf("%0*d", l, x)
			if !emit(B(s)) {
				return
			}
		}
	}
}
