package props

// C14: URI parsing is a lossless, ordered decomposition.

import (
	"bytes"
	"fmt"

	"github.com/intuitivelabs/sipsp"
	"pgregory.net/rapid"
)

type CaseURI struct {
	U B `json:"uri"`
	// WellFormed: a sip:/sips: URI built component by component (user possibly holding ';' '?' '&' '=' '/'):
	// "';' and '?' before an '@' belong to the user part" - it has to be accepted
	WellFormed bool `json:"well_formed,omitempty"`
}

type uriComp struct {
	name  string
	f     sipsp.PField
	delim byte // delimiter written before the component (0 = none)
}

// refSplit: the reference decomposition of the text after the scheme, for inputs
// with at most one '@' that is not the first byte. It does not validate anything.
type refURI struct {
	user, pass, host, port, params, hdrs []byte
	hasUser                              bool
}

func refSplitURI(rest []byte) refURI {
	var r refURI
	if at := bytes.IndexByte(rest, '@'); at >= 0 {
		ui := rest[:at]
		r.hasUser = true
		if c := bytes.IndexByte(ui, ':'); c >= 0 {
			r.user, r.pass = ui[:c], ui[c+1:]
		} else {
			r.user = ui
		}
		rest = rest[at+1:]
	}
	// host
	i := 0
	if len(rest) > 0 && rest[0] == '[' {
		if e := bytes.IndexByte(rest, ']'); e >= 0 {
			i = e + 1
		} else {
			i = len(rest)
		}
	} else {
		for i < len(rest) && rest[i] != ':' && rest[i] != ';' && rest[i] != '?' {
			i++
		}
	}
	r.host = rest[:i]
	rest = rest[i:]
	if len(rest) > 0 && rest[0] == ':' {
		j := 1
		for j < len(rest) && rest[j] != ';' && rest[j] != '?' {
			j++
		}
		r.port = rest[1:j]
		rest = rest[j:]
	}
	if len(rest) > 0 && rest[0] == ';' {
		j := 1
		for j < len(rest) && rest[j] != '?' {
			j++
		}
		r.params = rest[1:j]
		rest = rest[j:]
	}
	if len(rest) > 0 && rest[0] == '?' {
		r.hdrs = rest[1:]
	}
	return r
}

func schemeLen(u []byte) int {
	if len(u) >= 5 && (u[3] == 's' || u[3] == 'S') {
		return 5
	}
	return 4
}

func evalURI(c CaseURI) Result {
	in := []byte(c.U)
	var u sipsp.PsipURI
	e, pos := sipsp.ParseURI(in, &u)
	_ = e.Error()
	if pos < 0 || pos > len(in) {
		return viol("ParseURI(%s) = (%v, %d): position outside the input", c.U, e, pos)
	}
	if e != 0 {
		if c.WellFormed {
			return viol("ParseURI(%s) = (%v, %d): a well-formed URI built from its components is rejected", c.U, e, pos)
		}
		return ok(false, "rejected")
	}
	// the same result on a structure that was used for another URI and Reset()
	{
		var used sipsp.PsipURI
		sipsp.ParseURI([]byte("sips:olduser:oldpass@old.example.org:5071;transport=tls;maddr=1.2.3.4?subject=old&x=y"), &used)
		used.Reset()
		e2, p2 := sipsp.ParseURI(in, &used)
		if e2 != e || p2 != pos || used != u {
			return viol("ParseURI(%s) into a structure used before and Reset(): (%v, %d) %+v; into a new one: (%v, %d) %+v", c.U, e2, p2, used, e, pos, u)
		}
	}
	// the property quantifies over texts behind a sip:/sips:/tel: prefix (any letter case)
	if l := asciiLower(in); !(len(l) >= 4 && (l[:4] == "sip:" || l[:4] == "tel:") || len(l) >= 5 && l[:5] == "sips:") {
		return ok(false, "accepted-without-a-proper-scheme")
	}
	if pos != len(in) {
		return viol("ParseURI(%s) accepted but consumed %d of %d bytes", c.U, pos, len(in))
	}
	if r := derefAll(&u, len(in)); r != "" {
		return viol("ParseURI(%s) accepted: %s", c.U, r)
	}
	tel := u.URIType == sipsp.TELuri
	sl := schemeLen(in)
	if int(u.Scheme.Offs) != 0 || int(u.Scheme.Len) != sl {
		return viol("ParseURI(%s): Scheme = (%d,%d), want (0,%d)", c.U, u.Scheme.Offs, u.Scheme.Len, sl)
	}
	wantType := sipsp.SIPuri
	switch asciiLower(in[:sl]) {
	case "sips:":
		wantType = sipsp.SIPSuri
	case "tel:":
		wantType = sipsp.TELuri
	}
	if u.URIType != wantType {
		return viol("ParseURI(%s): URIType = %v, want %v", c.U, u.URIType, wantType)
	}
	user, host := u.User, u.Host
	if tel {
		// the number is reported as the user with an empty host
		if !u.Host.Empty() && bytes.IndexByte(in, '@') < 0 {
			return viol("ParseURI(%s): tel: URI with a non-empty host %q", c.U, u.Host.Get(in))
		}
		if bytes.IndexByte(in, '@') < 0 {
			host, user = u.User, sipsp.PField{}
		}
	}
	if tel && bytes.IndexByte(in, '@') >= 0 {
		// a tel: URI with '@' is outside the stated form: it only has to return
		return ok(false, "tel-with-@")
	}
	comps := []uriComp{{"user", user, 0}, {"password", u.Pass, ':'}, {"host", host, '@'}, {"port", u.Port, ':'},
		{"params", u.Params, ';'}, {"headers", u.Headers, '?'}}
	// structural oracle: ordered, disjoint, gaps made of the skipped components' delimiters
	prevEnd := sl
	prevIdx := -1 // index of the previous non-empty component (-1 = scheme)
	nonEmpty := 0
	gapOK := func(gap []byte, from, to int) bool {
		// delimiters of components from+1..to, in order; those strictly between are optional,
		// the one of `to` is mandatory (host: '@' mandatory only after user/password)
		k := 0
		for idx := from + 1; idx <= to && idx < len(comps); idx++ {
			d := comps[idx].delim
			if d == 0 {
				continue
			}
			mandatory := idx == to
			if idx == 2 && to == 2 {
				mandatory = from == 0 || from == 1
			}
			if k < len(gap) && gap[k] == d {
				k++
			} else if mandatory {
				return false
			}
		}
		return k == len(gap)
	}
	for idx, cp := range comps {
		if cp.f.Empty() {
			continue
		}
		nonEmpty++
		a, b := int(cp.f.Offs), int(cp.f.Offs)+int(cp.f.Len)
		if a < prevEnd {
			return viol("ParseURI(%s): %s [%d,%d) overlaps or precedes the previous component ending at %d", c.U, cp.name, a, b, prevEnd)
		}
		if !gapOK(in[prevEnd:a], prevIdx, idx) {
			return viol("ParseURI(%s): the text %q between the previous component (ending at %d) and %s [%d,%d) is not made of the delimiters that belong there",
				c.U, in[prevEnd:a], prevEnd, cp.name, a, b)
		}
		prevEnd, prevIdx = b, idx
	}
	// tail: only delimiters of empty trailing components
	if !gapOK(in[prevEnd:], prevIdx, len(comps)) {
		return viol("ParseURI(%s): trailing text %q after the last component is dropped", c.U, in[prevEnd:])
	}
	if nonEmpty == 0 {
		return viol("ParseURI(%s) accepted with no component at all", c.U)
	}
	// reference split
	rest := in[sl:]
	nat := bytes.Count(rest, []byte("@"))
	classes := []string{"accepted"}
	delimBeforeAt := false
	if at := bytes.IndexByte(rest, '@'); at > 0 && bytes.ContainsAny(rest[:at], ";?:") {
		delimBeforeAt = true
		classes = append(classes, "delim-before-@")
	}
	// (the first byte after the scheme is always taken as an ordinary user/host byte, even if it
	// is '@', ';' or '?': such inputs only get the structural oracle)
	firstOrdinary := len(rest) > 0 && rest[0] != '@' && rest[0] != ';' && rest[0] != '?'
	if at := bytes.IndexByte(rest, '@'); at >= 0 && bytes.ContainsAny(rest[:at], "[]") {
		firstOrdinary = false // brackets in the user part: not a form the statement describes
	}
	if nat <= 1 && firstOrdinary && !(tel && nat > 0) {
		r := refSplitURI(rest)
		get := func(f sipsp.PField) []byte { return f.Get(in) }
		cmp := func(name string, got, want []byte) string {
			if !bytes.Equal(got, want) {
				return fmt.Sprintf("%s = %q, the reference split gives %q", name, got, want)
			}
			return ""
		}
		for _, m := range []string{
			cmp("user", get(user), r.user), cmp("password", get(u.Pass), r.pass), cmp("host", get(host), r.host),
			cmp("port", get(u.Port), r.port), cmp("params", get(u.Params), r.params), cmp("headers", get(u.Headers), r.hdrs),
		} {
			if m != "" {
				return viol("ParseURI(%s): %s", c.U, m)
			}
		}
		classes = append(classes, "ref-split-applied")
	}
	// port number (C10 rule)
	if !u.Port.Empty() {
		p := u.Port.Get(in)
		if !allDigits(p) {
			return viol("ParseURI(%s): accepted a non-numeric port %q", c.U, p)
		}
		v := decToBig(string(p))
		if v.Cmp(bigInt(65535)) > 0 || uint64(u.PortNo) != v.Uint64() {
			return viol("ParseURI(%s): PortNo = %d for port %q", c.U, u.PortNo, p)
		}
	} else if u.PortNo != 0 {
		return viol("ParseURI(%s): PortNo = %d without a port", c.U, u.PortNo)
	}
	return ok(nonEmpty >= 3 || delimBeforeAt, classes...)
}

var C14URI = Register(&Check[CaseURI]{
	Prop: "C14", Name: "C14.uri",
	Gen: func(t *rapid.T) CaseURI {
		switch weighted(t, "uri_k", 4, 3, 3, 3) {
		case 3: // a complete host[:port][;params][?headers] text that a late '@' turns into the user part
			first := genURISpec(t)
			first.HasUser, first.HasPass = false, false
			second := genURISpec(t)
			second.HasUser, second.HasPass = false, false
			f := first.Render()
			sec := second.Render()
			u := append(append(append([]byte{}, f...), '@'), sec[schemeLen(sec):]...)
			return CaseURI{U: u}
		case 0:
			sp := genURISpec(t)
			return CaseURI{U: sp.Render(), WellFormed: asciiLower(sp.Scheme) != "tel:"}
		case 1:
			return CaseURI{U: mutate(t, genURIFull(t), 3)}
		default:
			sch := recase(t, pick(t, "sch", "sip:", "sips:", "tel:"))
			return CaseURI{U: append(sch, genFrom(t, "tail", ":@;?&=[].a1bZ9-%+", 1, 24)...)}
		}
	},
	Eval: evalURI,
})

var uriAlphabet = []string{":", "@", ";", "?", "&", "=", "[", "]", ".", "a", "1"}

// uriScope enumerates every string over the delimiter alphabet behind a scheme.
func uriScope(scheme string, maxLen int) Scope {
	return Scope{Cfg: Cfg{Kind: "uri"}, Prefix: scheme, Alphabet: uriAlphabet, MaxLen: maxLen}
}

func allCasings(s string) []string {
	var letters []int
	for i := 0; i < len(s); i++ {
		if s[i] >= 'a' && s[i] <= 'z' {
			letters = append(letters, i)
		}
	}
	var out []string
	for mask := 0; mask < 1<<uint(len(letters)); mask++ {
		b := []byte(s)
		for j, p := range letters {
			if mask&(1<<uint(j)) != 0 {
				b[p] -= 32
			}
		}
		out = append(out, string(b))
	}
	return out
}
