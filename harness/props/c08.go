package props

// C08: the first line is decomposed exactly.

import (
	"bytes"
	"fmt"
	"strings"

	"github.com/intuitivelabs/sipsp"
	"pgregory.net/rapid"
)

// CaseFL: a first line by construction, optionally broken in a stated way.
type CaseFL struct {
	FL   FLSpec `json:"fl"`
	Miss string `json:"miss"` // "" = well-formed; else the near-miss applied
	Tail B      `json:"tail"` // bytes after the line (enough for the 14-byte look-ahead)
	Msg  bool   `json:"msg"`  // go through ParseSIPMsg (+Method()) instead of ParseFLine
	Cut  int    `json:"cut"`  // > 0: feed the first Cut bytes first, then everything (the decomposition must not depend on it)
	Cut2 int    `json:"cut2,omitempty"` // > Cut: a second, longer prefix is fed between the first one and everything (three calls)
	Used B      `json:"used"` // non-empty: the object first parses this other line and is Reset() (ParseFLine entry)
	// NotReply: the line (a request line by construction whose first token holds a control byte) only has to be
	// "not a reply": rejected, or decomposed as the request it is
	NotReply bool `json:"not_reply,omitempty"`
}

// cuts: the prefixes fed before the whole buffer (none, one or two, increasing, inside the buffer).
func (c CaseFL) cuts(n int) []int {
	var ks []int
	if c.Cut > 0 && c.Cut < n {
		ks = append(ks, c.Cut)
		if c.Cut2 > c.Cut && c.Cut2 < n {
			ks = append(ks, c.Cut2)
		}
	}
	return ks
}

func (c CaseFL) line() []byte {
	f := c.FL
	var w bytes.Buffer
	sp := func() { w.WriteByte(' ') }
	if f.Req {
		switch c.Miss {
		case "double-space-1":
			w.Write(f.Method)
			w.WriteString("  ")
			w.Write(f.URI)
			sp()
			w.Write(f.Ver)
		case "double-space-2":
			w.Write(f.Method)
			sp()
			w.Write(f.URI)
			w.WriteString("  ")
			w.Write(f.Ver)
		case "tab-1":
			w.Write(f.Method)
			w.WriteByte('\t')
			w.Write(f.URI)
			sp()
			w.Write(f.Ver)
		case "tab-2":
			w.Write(f.Method)
			sp()
			w.Write(f.URI)
			w.WriteByte('\t')
			w.Write(f.Ver)
		case "missing-token":
			w.Write(f.Method)
			sp()
			w.Write(f.URI)
		case "missing-uri":
			w.Write(f.Method)
			sp()
			sp()
			w.Write(f.Ver)
		case "missing-method":
			sp()
			w.Write(f.URI)
			sp()
			w.Write(f.Ver)
		case "extra-token":
			w.Write(f.Method)
			sp()
			w.Write(f.URI)
			sp()
			w.Write(f.Ver)
			sp()
			w.WriteString("x")
		case "leading-space":
			sp()
			w.Write(f.Method)
			sp()
			w.Write(f.URI)
			sp()
			w.Write(f.Ver)
		case "trailing-space":
			w.Write(f.Method)
			sp()
			w.Write(f.URI)
			sp()
			w.Write(f.Ver)
			sp()
		case "trailing-tab":
			w.Write(f.Method)
			sp()
			w.Write(f.URI)
			sp()
			w.Write(f.Ver)
			w.WriteByte('\t')
		default:
			w.Write(f.Method)
			sp()
			w.Write(f.URI)
			sp()
			w.Write(f.Ver)
		}
	} else {
		switch c.Miss {
		case "two-digit-code":
			w.Write(f.Ver)
			sp()
			w.Write(f.Code[:2])
			sp()
			w.Write(f.Reason)
		case "four-digit-code":
			w.Write(f.Ver)
			sp()
			w.Write(f.Code)
			w.WriteByte('7')
			sp()
			w.Write(f.Reason)
		case "nondigit-code", "nondigit-code-0", "nondigit-code-1", "nondigit-code-lo-0", "nondigit-code-lo-1", "nondigit-code-lo-2":
			// one of the three code characters is not a digit: just above '9' / a letter, or just below '0'
			code := append([]byte{}, f.Code...)
			pos := 2
			switch c.Miss {
			case "nondigit-code-0", "nondigit-code-lo-0":
				pos = 0
			case "nondigit-code-1", "nondigit-code-lo-1":
				pos = 1
			}
			repl := []byte{'x', ':'}[int(f.Code[0]-'0')%2]
			if len(c.Miss) > 15 && c.Miss[:16] == "nondigit-code-lo" {
				repl = '/'
			}
			code[pos] = repl
			w.Write(f.Ver)
			sp()
			w.Write(code)
			sp()
			w.Write(f.Reason)
		case "no-space-after-code":
			w.Write(f.Ver)
			sp()
			w.Write(f.Code)
		case "double-space-code":
			w.Write(f.Ver)
			w.WriteString("  ")
			w.Write(f.Code)
			sp()
			w.Write(f.Reason)
		case "tab-after-code":
			w.Write(f.Ver)
			sp()
			w.Write(f.Code)
			w.WriteByte('\t')
			w.Write(f.Reason)
		default:
			w.Write(f.Ver)
			sp()
			w.Write(f.Code)
			sp()
			w.Write(f.Reason)
		}
	}
	w.Write(f.EOL)
	return w.Bytes()
}

func evalFL(c CaseFL) Result {
	line := c.line()
	buf := append(append([]byte{}, line...), c.Tail...)
	if len(buf) < 16 {
		return Result{Skip: true}
	}
	if string(c.FL.EOL) == "\r" && len(c.Tail) > 0 && c.Tail[0] == '\n' {
		return Result{Skip: true}
	}
	var fl *sipsp.PFLine
	var o int
	var e sipsp.ErrorHdr
	var msg sipsp.PSIPMsg
	start := 0
	if c.Msg {
		msg.Init(nil, nil, nil)
		for _, k := range c.cuts(len(buf)) {
			if o1, e1 := sipsp.ParseSIPMsg(buf[:k:k], start, &msg, sipsp.SIPMsgSkipBodyF); e1 == sipsp.ErrHdrMoreBytes {
				start = o1
			} else {
				msg.Init(nil, nil, nil)
				start = 0
				break
			}
		}
		o, e = sipsp.ParseSIPMsg(buf, start, &msg, sipsp.SIPMsgSkipBodyF)
		fl = &msg.FL
	} else {
		fl = &sipsp.PFLine{}
		if len(c.Used) > 0 {
			sipsp.ParseFLine(append(append([]byte{}, c.Used...), "\r\nVia: SIP/2.0/UDP h\r\n\r\n"...), 0, fl)
			fl.Reset()
		}
		for _, k := range c.cuts(len(buf)) {
			if o1, e1 := sipsp.ParseFLine(buf[:k:k], start, fl); e1 == sipsp.ErrHdrMoreBytes {
				start = o1
			} else {
				fl.Reset()
				start = 0
				break
			}
		}
		o, e = sipsp.ParseFLine(buf, start, fl)
	}
	f := c.FL
	if c.NotReply && (isErrVerdict(e) || e == sipsp.ErrHdrBadChar) {
		return ok(true, "control-byte-in-first-token:rejected")
	}
	if c.Miss != "" {
		// a line violating the grammar must be rejected, not mis-split
		if c.Msg {
			if e == 0 || e == sipsp.ErrHdrNoCLen || e == sipsp.ErrHdrMoreBytes || fl.Parsed() {
				return viol("near-miss %q accepted by ParseSIPMsg: (%d, %v), first line parsed=%v\nline=%s", c.Miss, o, e, fl.Parsed(), B(line))
			}
			if !msg.Err() || msg.Parsed() {
				return viol("near-miss %q rejected with %v but Err()=%v Parsed()=%v (documented: Err() is true if parsing failed)\nline=%s", c.Miss, e, msg.Err(), msg.Parsed(), B(line))
			}
		} else if e == 0 || e == sipsp.ErrHdrMoreBytes {
			return viol("near-miss %q not rejected by ParseFLine: (%d, %v)\nline=%s", c.Miss, o, e, B(line))
		}
		return ok(true, "near-miss:"+c.Miss)
	}
	if c.Msg {
		if !fl.Parsed() {
			return viol("ParseSIPMsg: first line not parsed: (%d, %v)\nline=%s", o, e, B(line))
		}
	} else if e != 0 || o != len(line) {
		return viol("ParseFLine returned (%d, %v), want (%d, no error)\nline=%s", o, e, len(line), B(line))
	}
	if !fl.Parsed() || fl.Pending() || fl.Empty() {
		return viol("state predicates after success: Parsed=%v Pending=%v Empty=%v", fl.Parsed(), fl.Pending(), fl.Empty())
	}
	eq := func(name string, p sipsp.PField, want []byte, at int) string {
		if len(want) == 0 {
			if !p.Empty() {
				return fmt.Sprintf("%s = %q, want empty", name, p.Get(buf))
			}
			return ""
		}
		if int(p.Offs) != at || !bytes.Equal(p.Get(buf), want) {
			return fmt.Sprintf("%s = (%d,%d) %q, want (%d,%d) %q", name, p.Offs, p.Len, p.Get(buf), at, len(want), want)
		}
		return ""
	}
	if f.Req {
		if !fl.Request() {
			return viol("request line reported as a reply (Request() = false)\nline=%s", B(line))
		}
		for _, m := range []string{
			eq("Method", fl.Method, f.Method, 0),
			eq("URI", fl.URI, f.URI, len(f.Method)+1),
			eq("Version", fl.Version, f.Ver, len(f.Method)+1+len(f.URI)+1),
			eq("StatusCode", fl.StatusCode, nil, 0),
			eq("Reason", fl.Reason, nil, 0),
		} {
			if m != "" {
				return viol("request line: %s\nline=%s", m, B(line))
			}
		}
		want := refMethodNo(f.Method)
		if fl.MethodNo != want {
			return viol("request line: MethodNo = %d, method %q is %d in the reference table\nline=%s", fl.MethodNo, f.Method, want, B(line))
		}
		if fl.Status != 0 {
			return viol("request line: Status = %d", fl.Status)
		}
		if c.Msg && (!msg.Request() || msg.Method() != want) {
			return viol("PSIPMsg: Request()=%v Method()=%d, want true/%d\nline=%s", msg.Request(), msg.Method(), want, B(line))
		}
		cl := "req:other-method"
		if want != sipsp.MOther {
			cl = "req:table-method"
		} else if refMethodNo([]byte(strings.ToUpper(string(f.Method)))) != sipsp.MOther {
			cl = "req:recased-table-method"
		}
		return ok(true, cl, "eol:"+string(B(f.EOL).String()))
	}
	status := int(f.Code[0]-'0')*100 + int(f.Code[1]-'0')*10 + int(f.Code[2]-'0')
	if fl.Request() {
		return viol("status line reported as a request (Request() = true), Status = %d\nline=%s", fl.Status, B(line)).withKey("")
	}
	if int(fl.Status) != status {
		return viol("status line: Status = %d, the digits are %q\nline=%s", fl.Status, f.Code, B(line))
	}
	for _, m := range []string{
		eq("Version", fl.Version, f.Ver, 0),
		eq("StatusCode", fl.StatusCode, f.Code, len(f.Ver)+1),
		eq("Reason", fl.Reason, f.Reason, len(f.Ver)+1+3+1),
		eq("Method", fl.Method, nil, 0),
		eq("URI", fl.URI, nil, 0),
	} {
		if m != "" {
			return viol("status line: %s\nline=%s", m, B(line))
		}
	}
	if c.Msg && msg.Request() {
		return viol("PSIPMsg.Request() = true for a status line\nline=%s", B(line))
	}
	return ok(true, "reply", "eol:"+string(B(f.EOL).String()))
}

var reqMisses = []string{"double-space-1", "double-space-2", "tab-1", "tab-2", "missing-token", "missing-uri", "missing-method", "extra-token", "leading-space", "trailing-space", "trailing-tab"}

// enumNearMissCuts: every request near-miss for a short, a table and two long method tokens, one-shot and under
// every two-step cut of the line (the rejection must not depend on where the stream was cut).
func enumNearMissCuts(emit func(CaseFL) bool) {
	for _, m := range []string{"ACK", "INVITE", "X-CUSTOM-METHOD", "ABCDEFGHIJKLM", "NOTIFYNOTIFYNOTIFY"} {
		for _, miss := range reqMisses {
			for _, eol := range []string{"\r\n", "\n"} {
				for _, msg := range []bool{false, true} {
					c := CaseFL{FL: FLSpec{Req: true, Method: B(m), URI: B("sip:u@h"), Ver: B("SIP/2.0"), EOL: B(eol)},
						Tail: B("Via: SIP/2.0/UDP h\r\n\r\n"), Msg: msg, Miss: miss}
					n := len(c.line()) + 2
					for cut := 0; cut <= n; cut++ {
						c.Cut = cut
						if !emit(c) {
							return
						}
					}
				}
			}
		}
	}
}

var rplMisses = []string{"two-digit-code", "four-digit-code", "nondigit-code", "nondigit-code-0", "nondigit-code-1", "nondigit-code-lo-0",
	"nondigit-code-lo-1", "nondigit-code-lo-2", "no-space-after-code", "double-space-code", "tab-after-code"}

func flTail(t *rapid.T) B {
	return B(pick(t, "tail", "Via: SIP/2.0/UDP h\r\n\r\n", "X: y\r\nContent-Length: 0\r\n\r\n", "aaaaaaaaaaaaaaaa: b\r\n\r\n", "f: <sip:a@b>\n\n"))
}

func genCaseFL(t *rapid.T) CaseFL {
	c := CaseFL{FL: genFLine(t), Tail: flTail(t), Msg: rapid.Bool().Draw(t, "viamsg")}
	if rapid.IntRange(0, 2).Draw(t, "chunked") == 0 {
		c.Cut = rapid.IntRange(1, 40).Draw(t, "cut")
		// three calls: a second prefix, often ending just before / on / after the end of the line
		switch ln := len(c.line()); rapid.IntRange(0, 5).Draw(t, "cut2kind") {
		case 0:
			c.Cut2 = c.Cut + rapid.IntRange(1, 30).Draw(t, "cut2")
		case 1:
			c.Cut2 = ln - 1
		case 2:
			c.Cut2 = ln
		case 3:
			c.Cut2 = ln - 2
		}
	}
	if rapid.IntRange(0, 3).Draw(t, "used") == 0 {
		c.Used = B(pick(t, "usedline", "SIP/2.0 486 Busy Here", "REGISTER sip:registrar.example SIP/2.0", "sip/2.0 000 ", "X y"))
	}
	if rapid.IntRange(0, 3).Draw(t, "miss") == 0 {
		if c.FL.Req {
			c.Miss = pick(t, "misskind", reqMisses...)
			// tokens of a near-miss must not themselves hide the breakage
			if len(c.FL.Method) == 0 {
				c.FL.Method = B("M")
			}
		} else {
			c.Miss = pick(t, "misskind", rplMisses...)
			if c.Miss == "tab-after-code" || c.Miss == "no-space-after-code" {
				// the reason must not start with a space, that would repair the line
				c.FL.Reason = bytes.TrimLeft(c.FL.Reason, " ")
			}
			if c.Miss == "two-digit-code" && len(c.FL.Reason) > 0 && c.FL.Reason[0] >= '0' && c.FL.Reason[0] <= '9' {
				c.FL.Reason = append(B("x"), c.FL.Reason...)
			}
		}
	}
	return c
}

var C08FL = Register(&Check[CaseFL]{Prop: "C08", Name: "C08.fline", Gen: genCaseFL, Eval: evalFL})

// enumStatusLines: 1000 codes x 3 terminators x 4 reasons x 4 version casings.
func enumStatusLines(emit func(CaseFL) bool) {
	for code := 0; code < 1000; code++ {
		for _, eol := range []string{"\r\n", "\n", "\r"} {
			for _, reason := range []string{"", "OK", "Not Found here", " \t;x"} {
				for _, ver := range []string{"SIP/2.0", "sip/2.0", "Sip/2.0", "sIP/2.0"} {
					c := CaseFL{FL: FLSpec{Ver: B(ver), Code: B(fmt.Sprintf("%03d", code)), Reason: B(reason), EOL: B(eol)},
						Tail: B("Via: SIP/2.0/UDP h\r\n\r\n"), Msg: code%2 == 0}
					if !emit(c) {
						return
					}
				}
			}
		}
		// every non-digit placement for this code
		for _, miss := range []string{"nondigit-code", "nondigit-code-0", "nondigit-code-1", "nondigit-code-lo-0", "nondigit-code-lo-1", "nondigit-code-lo-2", "two-digit-code", "four-digit-code"} {
			c := CaseFL{FL: FLSpec{Ver: B("SIP/2.0"), Code: B(fmt.Sprintf("%03d", code)), Reason: B("xOK"), EOL: B("\r\n")},
				Tail: B("Via: SIP/2.0/UDP h\r\n\r\n"), Msg: code%2 == 1, Miss: miss}
			if !emit(c) {
				return
			}
		}
	}
}

// enumRequestLines: every table method, every one-case-flip of it, x terminators.
func enumRequestLines(emit func(CaseFL) bool) {
	for _, m := range methodNames {
		var variants []string
		variants = append(variants, m, strings.ToLower(m), m+"X", m[:len(m)-1])
		for i := 0; i < len(m); i++ {
			b := []byte(m)
			b[i] = flipCase(b[i])
			variants = append(variants, string(b))
		}
		for _, v := range variants {
			for _, eol := range []string{"\r\n", "\n", "\r"} {
				for _, msg := range []bool{false, true} {
					c := CaseFL{FL: FLSpec{Req: true, Method: B(v), URI: B("sip:u@h;x=1?y"), Ver: B("SIP/2.0"), EOL: B(eol)},
						Tail: B("Via: SIP/2.0/UDP h\r\n\r\n"), Msg: msg}
					if !emit(c) {
						return
					}
				}
			}
		}
	}
}

// enumPrefixBytes: "SIP/2.0 200 OK" with every byte value at each of its first eight positions. Only the eight
// letter-case variants of "SIP/2.0 " make it a status line; any other visible byte makes it the request line
// "<7-byte method> 200 OK" (or, at the position of the blank, a two-token line that must be rejected); with a control
// or 8-bit byte it must at least not be taken for a reply.
func enumPrefixBytes(emit func(CaseFL) bool) {
	const tmpl = "SIP/2.0 200 OK"
	for _, base := range []string{tmpl, "sip/2.0 200 OK", "SiP/2.0 404 Not Found"} {
		for p := 0; p < 8; p++ {
			for v := 0; v < 256; v++ {
				b := []byte(base)
				if b[p] == byte(v) || v == ' ' || v == '\t' || v == '\r' || v == '\n' {
					continue
				}
				b[p] = byte(v)
				rest := string(b[8:])
				code, reason := rest[:3], ""
				if len(rest) > 4 {
					reason = rest[4:]
				}
				for _, msg := range []bool{false, true} {
					c := CaseFL{Tail: B("Via: SIP/2.0/UDP h\r\n\r\n"), Msg: msg}
					switch {
					case asciiLower(b[:8]) == "sip/2.0 ":
						c.FL = FLSpec{Ver: B(b[:7]), Code: B(code), Reason: B(reason), EOL: B("\r\n")}
					case p == 7:
						// no blank after the version-like token: "SIP/2.0x200 OK" has two tokens only
						if reason != "OK" {
							continue
						}
						c.FL = FLSpec{Req: true, Method: B(b[:11]), URI: B("OK"), EOL: B("\r\n")}
						c.Miss = "missing-token"
					default:
						if reason != "OK" {
							continue // three tokens only in the first two templates
						}
						c.FL = FLSpec{Req: true, Method: B(b[:7]), URI: B(code), Ver: B(reason), EOL: B("\r\n")}
						c.NotReply = v < 0x21 || v > 0x7e
					}
					if !emit(c) {
						return
					}
				}
			}
		}
	}
}
