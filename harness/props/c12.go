package props

// C12: Reset/Init make a used parser object behave like a new one.

import (
	"bytes"
	"fmt"

	"github.com/intuitivelabs/sipsp"
	"pgregory.net/rapid"
)

// Op is one use of the object before a reset.
type Op struct {
	Buf     B     `json:"buf"`
	Sched   []int `json:"sched"`
	Abandon int   `json:"abandon"` // >0: give up after that many calls (connection dropped while suspended); 0: run to the end
	Flags   uint  `json:"flags"`
	EndLast bool  `json:"end_last"`
	UseInit bool  `json:"use_init"` // reset with Init instead of Reset where the type has both
	Switch  bool  `json:"switch"`   // re-initialise with other arrays (capacities below; -1 = built-in / none)
	NewHdr  int   `json:"new_hdr"`
	NewCt   int   `json:"new_ct"`
	NewP    int   `json:"new_p"`
}

// reinit re-initialises the object with new caller arrays, the way a caller would
// (Init where the type resets itself in Init, Reset + Init / field assignment otherwise).
func (s *Stepper) reinit(h, c, p int) {
	switch s.cfg.Kind {
	case KMsg:
		s.msg.Init(nil, mkHdrs(h), mkContacts(c))
	case KHdrLinePV:
		s.hdr.Reset()
		s.pv.Init(mkContacts(c))
	case KHeaders:
		s.hl.Reset()
		s.hl.Hdrs = mkHdrs(h)
		s.pv.Init(mkContacts(c))
	case KHeadersNil:
		s.hl.Reset()
		s.hl.Hdrs = mkHdrs(h)
	case KContacts:
		s.contacts.Reset()
		s.contacts.Init(mkContacts(c))
	case KURIParams:
		s.uparams.Reset()
		if p >= 0 {
			s.uparams.Init(make([]sipsp.URIParam, p))
		} else {
			s.uparams.Init(nil)
		}
	case KURIHdrs:
		s.uhdrs.Reset()
		if p >= 0 {
			s.uhdrs.Init(make([]sipsp.URIHdr, p))
		} else {
			s.uhdrs.Init(nil)
		}
	default:
		s.ResetObj(false)
		return
	}
	s.vno = 0
	s.cfg.HdrCap, s.cfg.CtCap, s.cfg.PCap = h, c, p
}

// CaseReset: a history of uses and resets on one object, then a probe input.
type CaseReset struct {
	Cfg   Cfg   `json:"cfg"`
	Ops   []Op  `json:"ops"`
	Probe B     `json:"probe"`
	PSch  []int `json:"probe_sched"`
}

func (s *Stepper) setFlags(f uint, end bool) {
	s.cfg.Flags = f
	s.cfg.EndLast = end
}

func evalReset(cs CaseReset) Result {
	used := NewStepper(cs.Cfg)
	classes := []string{"kind:" + cs.Cfg.Kind}
	abandoned, failed, completed := 0, 0, 0
	for _, op := range cs.Ops {
		used.setFlags(op.Flags, op.EndLast)
		sched := normSchedule(op.Sched, len(op.Buf))
		buf := []byte(op.Buf)
		o := 0
		done := false
		for j, c := range sched {
			if op.Abandon > 0 && j >= op.Abandon {
				break
			}
			o2, e := used.Step(buf[:c:c], o, j == len(sched)-1)
			if e != sipsp.ErrHdrMoreBytes {
				done = true
				if used.Success(e) {
					completed++
				} else {
					failed++
				}
				break
			}
			o = o2
		}
		if !done {
			abandoned++
		}
		if op.Switch {
			used.reinit(op.NewHdr, op.NewCt, op.NewP)
		} else {
			used.ResetObj(op.UseInit)
		}
	}
	used.setFlags(cs.Cfg.Flags, cs.Cfg.EndLast)
	// the reference: a new object with fresh arrays of the capacities now in effect
	fcfg := cs.Cfg
	fcfg.HdrCap, fcfg.CtCap, fcfg.PCap = used.cfg.HdrCap, used.cfg.CtCap, used.cfg.PCap
	fresh := NewStepper(fcfg)
	buf := []byte(cs.Probe)
	sched := normSchedule(cs.PSch, len(buf))
	o1, o2 := 0, 0
	for j, c := range sched {
		last := j == len(sched)-1
		view := buf[:c:c]
		a1, e1 := used.Step(view, o1, last)
		a2, e2 := fresh.Step(view, o2, last)
		if a1 != a2 || e1 != e2 {
			return viol("%s after %d uses (%d completed, %d failed, %d abandoned) and reset: probe step %d (prefix %d) returned (%d, %v); a new object returns (%d, %v)\nprobe=%s\nhistory=%s",
				cs.Cfg.Kind, len(cs.Ops), completed, failed, abandoned, j, c, a1, e1, a2, e2, cs.Probe, histStr(cs.Ops)).with(true, classes...)
		}
		if e1 != sipsp.ErrHdrMoreBytes {
			s1, s2 := used.Snap(view, 0, e1), fresh.Snap(view, 0, e2)
			if s1 != s2 {
				return viol("%s after %d uses (%d completed, %d failed, %d abandoned) and reset: probe verdict (%d, %v): values differ from a new object's (got = reused, want = new)\n%s\nprobe=%s\nhistory=%s",
					cs.Cfg.Kind, len(cs.Ops), completed, failed, abandoned, a1, e1, diffSnap(s1, s2), cs.Probe, histStr(cs.Ops)).with(true, classes...)
			}
			if abandoned > 0 {
				classes = append(classes, "hist:abandoned")
			}
			if failed > 0 {
				classes = append(classes, "hist:failed")
			}
			if completed > 0 {
				classes = append(classes, "hist:completed")
			}
			return ok(abandoned+failed > 0, classes...)
		}
		o1, o2 = a1, a2
	}
	return ok(false, append(classes, "probe-never-definitive")...)
}

func histStr(ops []Op) string {
	s := ""
	for i, op := range ops {
		s += fmt.Sprintf("[%d: %s sched=%v abandon=%d init=%v switch=%v(%d,%d,%d)] ", i, op.Buf, op.Sched, op.Abandon, op.UseInit, op.Switch, op.NewHdr, op.NewCt, op.NewP)
	}
	return s
}

// bigListInput renders m contacts / URI parameters / URI headers for the "many items in a big caller array" histories.
func bigListInput(kind string, m int, salt string) []byte {
	var w bytes.Buffer
	switch kind {
	case KMsg:
		w.WriteString("REGISTER sip:r.example SIP/2.0\r\nVia: SIP/2.0/UDP h;branch=z9hG4bK" + salt + "\r\nContact: ")
	case KHdrLinePV:
		w.WriteString("Contact: ")
	}
	for i := 0; i < m; i++ {
		switch kind {
		case KURIParams:
			if i > 0 {
				w.WriteByte(';')
			}
			fmt.Fprintf(&w, "p%s%d=%d", salt, i, i)
		case KURIHdrs:
			if i > 0 {
				w.WriteByte('&')
			}
			fmt.Fprintf(&w, "h%s%d=%d", salt, i, i)
		default:
			if i > 0 {
				w.WriteString(", ")
			}
			fmt.Fprintf(&w, "\"c%s %d\" <sip:c%d@h.example>;expires=%d", salt, i, i, 10+i)
		}
	}
	switch kind {
	case KMsg:
		w.WriteString("\r\nl: 0\r\n\r\n")
	case KHdrLinePV, KContacts:
		w.WriteString("\r\nX")
	}
	return w.Bytes()
}

// genBigResetCase: a caller array around a needle size (17, 33, 256 ...) and inputs with about as many items, so
// that slots far beyond the usual handful are touched before the reset - completed, abandoned mid-item, or both.
func genBigResetCase(t *rapid.T) CaseReset {
	kind := pick(t, "bigkind", KMsg, KContacts, KHdrLinePV, KURIParams, KURIHdrs)
	k := pick(t, "bigk", 16, 17, 18, 32, 33, 255, 256, 257)
	if kind == KMsg || kind == KContacts || kind == KHdrLinePV {
		k = pick(t, "bigk_ct", 16, 17, 18, 32, 33, 64)
	}
	capv := k + pick(t, "bigcap_d", 0, 0, 1, 3)
	cfg := Cfg{Kind: kind, HdrCap: -1, CtCap: -1, PCap: -1}
	switch kind {
	case KMsg, KContacts, KHdrLinePV:
		cfg.CtCap = capv
	case KURIParams:
		cfg.PCap, cfg.Flags, cfg.EndLast = capv, uint(sipsp.POptTokURIParamF), true
	case KURIHdrs:
		cfg.PCap, cfg.Flags, cfg.EndLast = capv, uint(sipsp.POptTokURIHdrF), true
	}
	cs := CaseReset{Cfg: cfg}
	nops := rapid.IntRange(1, 2).Draw(t, "bignops")
	for i := 0; i < nops; i++ {
		m := k + pick(t, "bigm_d", -1, 0, 1, 2, 5)
		op := Op{Buf: bigListInput(kind, m, pick(t, "bigsalt", "a", "b")), Flags: cfg.Flags, EndLast: cfg.EndLast}
		switch weighted(t, "bigop", 2, 3) {
		case 0:
		default:
			cut := len(op.Buf) - rapid.IntRange(1, 60).Draw(t, "bigcut")
			if cut > 0 {
				op.Sched, op.Abandon = []int{cut}, 1
			}
		}
		op.UseInit = rapid.Bool().Draw(t, "biguseinit")
		cs.Ops = append(cs.Ops, op)
	}
	cs.Probe = bigListInput(kind, k+pick(t, "bigp_d", -1, 0, 1, 2), pick(t, "bigpsalt", "a", "c"))
	if rapid.Bool().Draw(t, "bigpchunked") {
		cs.PSch = []int{rapid.IntRange(1, len(cs.Probe)-1).Draw(t, "bigpcut")}
	}
	return cs
}

func genResetCase(t *rapid.T) CaseReset {
	if oneIn(t, "big", 25) {
		return genBigResetCase(t)
	}
	kind := pick(t, "kind", allKinds[:len(allKinds)-1]...) // SkipQuoted has no object
	cfg := genCfg(t, kind)
	// caller-supplied arrays matter most here
	if rapid.IntRange(0, 3).Draw(t, "forcecaps") != 0 {
		switch kind {
		case KMsg, KHeaders, KHeadersNil:
			cfg.HdrCap = rapid.IntRange(0, 6).Draw(t, "hcap")
			cfg.CtCap = rapid.IntRange(0, 4).Draw(t, "ccap")
		case KHdrLinePV, KContacts:
			cfg.CtCap = rapid.IntRange(0, 4).Draw(t, "ccap")
		case KURIParams, KURIHdrs:
			cfg.PCap = rapid.IntRange(0, 4).Draw(t, "pcap")
		}
	}
	cs := CaseReset{Cfg: cfg}
	nops := rapid.IntRange(1, 5).Draw(t, "nops")
	genInput := func() []byte {
		if kind == KMsg {
			b, _ := genMsgBytes(t, 8)
			return b
		}
		b, _ := genFragment(t, cfg)
		return b
	}
	for i := 0; i < nops; i++ {
		op := Op{Buf: genInput(), Flags: cfg.Flags, EndLast: cfg.EndLast}
		if rapid.IntRange(0, 3).Draw(t, "otherflags") == 0 {
			c2 := genCfg(t, kind)
			op.Flags, op.EndLast = c2.Flags, c2.EndLast
		}
		switch weighted(t, "op_kind", 3, 5) {
		case 0: // run to the end, maybe chunked
			if rapid.Bool().Draw(t, "chunked") {
				op.Sched = genSchedule(t, len(op.Buf), hotPositions(op.Buf))
			}
		default: // abandon while suspended: feed a strict prefix, give up
			if len(op.Buf) > 1 {
				cut := rapid.IntRange(1, len(op.Buf)-1).Draw(t, "abandon_at")
				if rapid.Bool().Draw(t, "abandon_two") && cut > 1 {
					op.Sched = []int{rapid.IntRange(1, cut-1).Draw(t, "cut0"), cut}
					op.Abandon = 2
				} else {
					op.Sched = []int{cut}
					op.Abandon = 1
				}
			}
		}
		op.UseInit = rapid.IntRange(0, 2).Draw(t, "useinit") == 0
		if rapid.IntRange(0, 4).Draw(t, "switch") == 0 {
			op.Switch = true
			op.NewHdr = pick(t, "newh", -1, -1, 0, 1, 3, 12)
			op.NewCt = pick(t, "newc", -1, -1, 0, 1, 2, 5)
			op.NewP = pick(t, "newp", -1, 0, 1, 3)
		}
		cs.Ops = append(cs.Ops, op)
	}
	cs.Probe = genInput()
	if rapid.Bool().Draw(t, "pchunked") {
		cs.PSch = genSchedule(t, len(cs.Probe), hotPositions(cs.Probe))
	}
	return cs
}

var C12Reset = Register(&Check[CaseReset]{Prop: "C12", Name: "C12.reset", Gen: genResetCase, Eval: evalReset})

// C12URI: PsipURI.Reset then ParseURI equals parsing into a new structure.
type CaseURI2 struct {
	A  B `json:"a"`
	Bb B `json:"b"`
}

var C12URI = Register(&Check[CaseURI2]{
	Prop: "C12", Name: "C12.uri",
	Gen: func(t *rapid.T) CaseURI2 {
		return CaseURI2{A: mutate(t, genURIFull(t), 2), Bb: mutate(t, genURIFull(t), 2)}
	},
	Eval: func(cs CaseURI2) Result {
		var u, f sipsp.PsipURI
		e0, _ := sipsp.ParseURI([]byte(cs.A), &u)
		u.Reset()
		e1, p1 := sipsp.ParseURI([]byte(cs.Bb), &u)
		e2, p2 := sipsp.ParseURI([]byte(cs.Bb), &f)
		if e1 != e2 || p1 != p2 {
			return viol("ParseURI(%s) on a structure reset after parsing %s: (%v, %d); on a new structure: (%v, %d)", cs.Bb, cs.A, e1, p1, e2, p2)
		}
		if e1 == 0 {
			a, b := newSnap(cs.Bb, 0), newSnap(cs.Bb, 0)
			a.uri("U", &u)
			b.uri("U", &f)
			if a.String() != b.String() {
				return viol("ParseURI(%s) on a structure reset after parsing %s differs from a new structure:\n%s", cs.Bb, cs.A, diffSnap(a.String(), b.String()))
			}
		}
		return ok(e0 == 0 && e1 == 0)
	},
})

// ---------- small-scope history enumeration ----------

// c12Scopes: for each listed parser kind, every (abandoned or completed first use over a short
// string, Reset/Init, probe string) triple over the kind's delimiter alphabet.
type c12Scope struct {
	cfg      Cfg
	alphabet []string
	prefix   string
	useLen   int // symbols in the first use
	probeLen int // symbols in the probe
}

func c12ScopeList(depth int) []c12Scope {
	tokA := []string{"a", "=", ";", ",", " ", "\r\n", "\"", "&"}
	naA := []string{"a", "<", ">", "\"", ";", "=", ",", " ", "\r\n", "*"}
	hbA := []string{"a", "m", ":", " ", "\r\n", ",", "<", ">"}
	semi := uint(sipsp.POptParamSemiSepF)
	var s []c12Scope
	for _, cap := range []int{-1, 0, 1} {
		s = append(s, c12Scope{cfg: withCaps(withFlags(scopeCfg(KURIParams), uint(sipsp.POptTokURIParamF), true), -1, -1, cap), alphabet: tokA, useLen: 2 + depth, probeLen: 3 + depth})
		s = append(s, c12Scope{cfg: withCaps(withFlags(scopeCfg(KURIHdrs), uint(sipsp.POptTokURIHdrF), true), -1, -1, cap), alphabet: tokA, useLen: 2 + depth, probeLen: 3 + depth})
		s = append(s, c12Scope{cfg: withCaps(scopeCfg(KContacts), -1, cap, -1), alphabet: naA, prefix: "<a>", useLen: 2, probeLen: 3 + depth})
		s = append(s, c12Scope{cfg: withCaps(scopeCfg(KHeaders), cap, cap, -1), alphabet: hbA, useLen: 2 + depth, probeLen: 3 + depth})
		s = append(s, c12Scope{cfg: withCaps(scopeCfg(KMsg), cap, cap, -1), alphabet: hbA, prefix: "A b c\r\n", useLen: 2 + depth, probeLen: 2 + depth})
	}
	s = append(s, c12Scope{cfg: withFlags(scopeCfg(KTokParam), semi, false), alphabet: tokA, useLen: 2 + depth, probeLen: 3 + depth})
	s = append(s, c12Scope{cfg: withHType(scopeCfg(KNameAddr), sipsp.HdrContact), alphabet: naA, useLen: 2 + depth, probeLen: 3 + depth})
	s = append(s, c12Scope{cfg: scopeCfg(KPAIs), alphabet: naA, prefix: "<a>", useLen: 2, probeLen: 3 + depth})
	s = append(s, c12Scope{cfg: scopeCfg(KHdrLinePV), alphabet: hbA, useLen: 2 + depth, probeLen: 3 + depth})
	s = append(s, c12Scope{cfg: scopeCfg(KCSeq), alphabet: []string{"1", "a", " ", "\r\n"}, useLen: 4, probeLen: 4 + depth})
	s = append(s, c12Scope{cfg: scopeCfg(KFLine), alphabet: []string{"S", "a", " ", "\r\n", "1"}, prefix: "SIP/2.0 20", useLen: 3, probeLen: 3 + depth})
	return s
}

func (sc c12Scope) desc() string {
	return fmt.Sprintf("%s caps=%d/%d/%d: every first use of <= %d symbols (abandoned after each prefix, or run to the end) x Reset and Init x every probe of <= %d symbols over %q behind %q",
		sc.cfg.Kind, sc.cfg.HdrCap, sc.cfg.CtCap, sc.cfg.PCap, sc.useLen, sc.probeLen, sc.alphabet, sc.prefix)
}

// produce enumerates the histories of one shard (= one first-use string index).
func (sc c12Scope) produce(shard, nshards int, emit func(CaseReset) bool) {
	var strs func(n int) [][]byte
	strs = func(n int) [][]byte {
		out := [][]byte{[]byte(sc.prefix)}
		cur := [][]byte{[]byte(sc.prefix)}
		for l := 0; l < n; l++ {
			var next [][]byte
			for _, c := range cur {
				for _, a := range sc.alphabet {
					next = append(next, append(append([]byte{}, c...), a...))
				}
			}
			out = append(out, next...)
			cur = next
		}
		return out
	}
	uses := strs(sc.useLen)
	probes := strs(sc.probeLen)
	for ui, u := range uses {
		if ui%nshards != shard {
			continue
		}
		for cut := 0; cut <= len(u); cut++ {
			op := Op{Buf: append(B{}, u...), Flags: sc.cfg.Flags}
			if cut < len(u) {
				if cut == 0 {
					continue
				}
				op.Sched = []int{cut}
				op.Abandon = 1
			}
			for _, useInit := range []bool{false, true} {
				op.UseInit = useInit
				for _, p := range probes {
					if !emit(CaseReset{Cfg: sc.cfg, Ops: []Op{op}, Probe: append(B{}, p...)}) {
						return
					}
				}
			}
		}
	}
}

var C12Scope = Register(&Check[CaseReset]{Prop: "C12", Name: "C12.scope", Eval: evalReset})
