package props

// gen.go: generators. Every random choice is a rapid draw.
//
// The structured "Spec" types describe a piece of SIP text by construction;
// Render() produces the bytes, so model-based oracles know the expected parse.

import (
	"bytes"
	"fmt"
	"strings"

	"pgregory.net/rapid"
)

// ---------- small helpers ----------

// uniformIdx draws an index in [0,n) from single-bit draws: rapid's integer
// generators are deliberately biased towards small values, which starves the
// later alternatives of a choice list.
func uniformIdx(t *rapid.T, label string, n int) int {
	if n <= 1 {
		return 0
	}
	bits := 0
	for (1 << uint(bits)) < n {
		bits++
	}
	bits += 2 // reduce modulo bias
	v := 0
	for i := 0; i < bits; i++ {
		v <<= 1
		if rapid.Bool().Draw(t, label) {
			v |= 1
		}
	}
	return v % n
}

func pick[T any](t *rapid.T, label string, xs ...T) T {
	return xs[uniformIdx(t, label, len(xs))]
}

// weighted picks index i with probability w[i]/sum.
func weighted(t *rapid.T, label string, w ...int) int {
	sum := 0
	for _, x := range w {
		sum += x
	}
	r := uniformIdx(t, label, sum)
	for i, x := range w {
		if r < x {
			return i
		}
		r -= x
	}
	return len(w) - 1
}

const tokChars = "abcdefghijklmnopqrstuvwxyzABCDEFGHIJKLMNOPQRSTUVWXYZ0123456789-_.!~*'()%+"

// needleSizes: lengths and counts around the thresholds that fixed-size scratch buffers, narrow counters and "fast paths
// for long tokens" typically use. A violation confined to "the 33rd parameter" or "a token of 256+ bytes" is invisible to
// uniformly small inputs, so every generator occasionally stretches one element to one of these sizes.
var needleSizes = []int{15, 16, 17, 20, 24, 31, 32, 33, 40, 48, 50, 63, 64, 65, 66, 96, 100, 127, 128, 129, 130, 192, 200, 255, 256, 257, 258, 300, 384,
	511, 512, 513, 768, 1000, 1023, 1024, 1025, 2048, 4095, 4096, 4097}

// longN draws one needle size.
func longN(t *rapid.T, label string) int { return needleSizes[uniformIdx(t, label, len(needleSizes))] }

// oneIn is true with probability 1/n.
func oneIn(t *rapid.T, label string, n int) bool { return uniformIdx(t, label, n) == 0 }

// genLong draws a string of needle size over the alphabet: random head and tail, a repeated byte in between.
func genLong(t *rapid.T, label, alphabet string) B {
	n := longN(t, label+"_len")
	head := genFromExact(t, label+"_h", alphabet, 3)
	tail := genFromExact(t, label+"_t", alphabet, 3)
	fill := alphabet[uniformIdx(t, label+"_f", len(alphabet))]
	b := append(B{}, head...)
	for len(b) < n-len(tail) {
		b = append(b, fill)
	}
	b = append(b, tail...)
	return b[:n]
}

func genFromExact(t *rapid.T, label, alphabet string, n int) B {
	b := make([]byte, n)
	for i := range b {
		b[i] = alphabet[rapid.IntRange(0, len(alphabet)-1).Draw(t, label)]
	}
	return b
}

// needleCounts: item counts around the capacities of fixed arrays and narrow counters.
var needleCounts = []int{9, 10, 11, 12, 13, 16, 17, 18, 20, 24, 31, 32, 33, 34, 48, 50, 63, 64, 65, 66, 75, 100, 101, 102, 127, 128, 129, 200, 255, 256, 257, 300}

// manyN draws a needle count not above limit (limit <= 0: no limit).
func manyN(t *rapid.T, label string, limit int) int {
	n := needleCounts[uniformIdx(t, label, len(needleCounts))]
	for limit > 0 && n > limit {
		n /= 2
	}
	return n
}

func genFrom(t *rapid.T, label, alphabet string, min, max int) B {
	if max >= 6 && min < max && len(alphabet) >= 12 && oneIn(t, label+"_needle", 160) {
		return genLong(t, label+"_long", alphabet)
	}
	n := rapid.IntRange(min, max).Draw(t, label+"_n")
	b := make([]byte, n)
	for i := range b {
		b[i] = alphabet[rapid.IntRange(0, len(alphabet)-1).Draw(t, label)]
	}
	return b
}

func genTok(t *rapid.T, label string, min, max int) B {
	return genFrom(t, label, "abcdefghijklmnopqrstuvwxyz0123456789-._ABCXYZ", min, max)
}

// genWS: optional SP/HT run (no line breaks).
func genWS(t *rapid.T, label string) B {
	return B(pick(t, label, "", "", "", " ", " ", "\t", "  ", " \t", "\t "))
}

// genLWS: optional linear white space, possibly with a fold (CRLF SP, CR SP, LF HT ...).
func genLWS(t *rapid.T, label string) B {
	if oneIn(t, label+"_needle", 120) {
		// a long run (needle size), plain or folded
		n := longN(t, label+"_len")
		unit := pick(t, label+"_unit", " ", " ", "\t", " \t", "\r\n ", "\r\n\t ")
		var w bytes.Buffer
		for w.Len() < n {
			w.WriteString(unit)
		}
		return w.Bytes()
	}
	return B(pick(t, label, "", "", "", "", " ", " ", "\t", "  ", "\r\n ", "\r\n\t", "\n ", "\r ", " \r\n ", "\r\n  ", " \n\t ", "\r\n \r\n "))
}

// genLWS1: at least one whitespace byte.
func genLWS1(t *rapid.T, label string) B {
	return B(pick(t, label, " ", " ", " ", "\t", "  ", "\r\n ", "\n\t", "\r ", " \r\n "))
}

func genEOL(t *rapid.T, label string) B {
	return B(pick(t, label, "\r\n", "\r\n", "\r\n", "\r\n", "\n", "\r"))
}

// ---------- numbers ----------

var numBoundaries = []string{
	"0", "1", "9", "10", "99", "100", "255", "256", "999", "1000",
	"65535", "65536", "65537", "99999", "100000",
	"16777215", "16777216", "16777217", "99999999", "100000000", "999999999", "1000000000",
	"2147483647", "2147483648", "4294967295", "4294967296", "4294967297", "4294967300",
	"5000000000", "8589934592", "9999999999", "10000000000", "42949672960", "42949672965",
	"9223372036854775807", "9223372036854775808", "18446744073709551615", "18446744073709551616",
	"18446744073709551617", "18446744073709556676", "36893488147419103232", "184467440737095516160",
	"340282366920938463463374607431768211456",
}

// genDigits draws a decimal digit string biased to overflow boundaries.
func genDigits(t *rapid.T, label string) B {
	var s string
	switch weighted(t, label+"_k", 5, 3, 3, 2, 3) {
	case 4: // a range limit followed by more digits
		s = pick(t, label+"_lim", "255", "65535", "65536", "16777216", "4294967295", "4294967296", "18446744073709551615", "999999999") +
			string(genFrom(t, label+"_suf", "0123456789", 1, 3))
	case 0: // boundary +- small delta, done on the decimal string
		s = pick(t, label+"_b", numBoundaries...)
		d := rapid.IntRange(-20, 20).Draw(t, label+"_d")
		s = addSmall(s, d)
	case 1: // multiples of 2^32 / 2^64 plus small
		k := rapid.IntRange(1, 12).Draw(t, label+"_m")
		base := pick(t, label+"_base", "4294967296", "18446744073709551616", "65536", "16777216")
		s = mulSmall(base, k)
		s = addSmall(s, rapid.IntRange(0, 70000).Draw(t, label+"_a"))
	case 2: // random digits of random length
		s = string(genFrom(t, label+"_r", "0123456789", 1, 40))
	default:
		s = fmt.Sprintf("%d", rapid.Uint32().Draw(t, label+"_u"))
	}
	if rapid.IntRange(0, 5).Draw(t, label+"_z") == 0 {
		s = strings.Repeat("0", rapid.IntRange(1, 12).Draw(t, label+"_zn")) + s
	}
	if oneIn(t, label+"_zlong", 30) {
		// zero-padded far beyond the usual width: the total length, or the number of zeros, is a needle size
		n := longN(t, label+"_zlen")
		if rapid.Bool().Draw(t, label+"_ztotal") && n > len(s) {
			n -= len(s)
		}
		s = strings.Repeat("0", n) + s
	}
	return B(s)
}

// addSmall adds a small (possibly negative) integer to a decimal string (clamped at 0).
func addSmall(s string, d int) string {
	v := decToBig(s)
	v.Add(v, bigInt(int64(d)))
	if v.Sign() < 0 {
		return "0"
	}
	return v.String()
}

func mulSmall(s string, k int) string {
	v := decToBig(s)
	v.Mul(v, bigInt(int64(k)))
	return v.String()
}

// ---------- chunk schedules ----------

// genSchedule draws a strictly increasing list of prefix lengths ending at n.
// hot lists "interesting" positions used by the boundary-biased kind.
func genSchedule(t *rapid.T, n int, hot []int) []int {
	if n <= 0 {
		return []int{n}
	}
	var cuts []int
	switch weighted(t, "sched_kind", 2, 2, 3, 3, 1) {
	case 0: // every byte
		for i := 1; i <= n; i++ {
			cuts = append(cuts, i)
		}
		return cuts
	case 1: // fixed step
		st := rapid.IntRange(1, 7).Draw(t, "step")
		first := rapid.IntRange(0, st).Draw(t, "first")
		for i := first; i < n; i += st {
			if i > 0 {
				cuts = append(cuts, i)
			}
		}
	case 2: // random cuts
		k := rapid.IntRange(1, 8).Draw(t, "ncuts")
		set := map[int]bool{}
		for i := 0; i < k; i++ {
			set[rapid.IntRange(0, n).Draw(t, "cut")] = true
		}
		for i := 0; i < n; i++ {
			if set[i] {
				cuts = append(cuts, i)
			}
		}
	case 3: // boundary biased
		set := map[int]bool{}
		k := rapid.IntRange(1, 6).Draw(t, "ncuts")
		for i := 0; i < k; i++ {
			var p int
			if len(hot) > 0 && rapid.IntRange(0, 9).Draw(t, "usehot") < 8 {
				p = hot[rapid.IntRange(0, len(hot)-1).Draw(t, "hot")] + rapid.IntRange(-1, 1).Draw(t, "d")
			} else {
				p = rapid.IntRange(0, n).Draw(t, "cut")
			}
			if p >= 0 && p < n {
				set[p] = true
				if rapid.IntRange(0, 2).Draw(t, "pair") == 0 && p+1 < n {
					set[p+1] = true
				}
			}
		}
		for i := 0; i < n; i++ {
			if set[i] {
				cuts = append(cuts, i)
			}
		}
	default: // single cut
		p := rapid.IntRange(0, n-1).Draw(t, "cut")
		cuts = append(cuts, p)
	}
	cuts = append(cuts, n)
	return cuts
}

// hotPositions finds positions where a cut is likely to matter.
func hotPositions(b []byte) []int {
	var hot []int
	for i, c := range b {
		switch c {
		case '\r', '\n', '"', '\\', ';', '=', ',', '<', '>', ':', ' ', '\t', '?', '&', '@':
			hot = append(hot, i)
		}
		if i > 0 && isDigit(c) != isDigit(b[i-1]) {
			hot = append(hot, i)
		}
	}
	return hot
}

func isDigit(c byte) bool { return c >= '0' && c <= '9' }

func normSchedule(sched []int, n int) []int {
	var out []int
	prev := -1
	for _, c := range sched {
		if c > n {
			c = n
		}
		if c < 0 {
			continue
		}
		if c > prev {
			out = append(out, c)
			prev = c
		}
	}
	if len(out) == 0 || out[len(out)-1] != n {
		out = append(out, n)
	}
	return out
}

// ---------- mutation ----------

var sipDict = []string{
	"\r\n", "\r\n ", "\r\n\t", "\r", "\n", "\"", "\\", "\\\"", "<", ">", ";", "=", ",", ":", "*", " ", "\t",
	"0", "9", "tag", "q", "expires", "lr", ";tag=", ";q=0.5", ";expires=", "sip:", "@", "?", "&",
	"From", "To", "Contact", "CSeq", "Call-ID", "Content-Length", "l", "m", "f", "t", "i", "v",
	"P-Asserted-Identity", "Expires", "Via", "SIP/2.0", "SIP/2.0 200 OK", "INVITE", "\r\n\r\n", "\n\n",
	"4294967296", "65536", "16777217", "%", "[", "]", "\x00", "\x7f", "\xff",
}

// mutate applies 0..n byte-level edits.
func mutate(t *rapid.T, b []byte, maxEdits int) []byte {
	k := rapid.IntRange(0, maxEdits).Draw(t, "edits")
	o := append([]byte{}, b...)
	for e := 0; e < k; e++ {
		switch weighted(t, "mop", 4, 3, 3, 2, 2, 1) {
		case 0: // insert dict entry
			p := rapid.IntRange(0, len(o)).Draw(t, "mpos")
			d := []byte(pick(t, "dict", sipDict...))
			o = append(o[:p:p], append(d, o[p:]...)...)
		case 1: // delete a short range
			if len(o) > 0 {
				p := rapid.IntRange(0, len(o)-1).Draw(t, "mpos")
				l := rapid.IntRange(1, 4).Draw(t, "mlen")
				if p+l > len(o) {
					l = len(o) - p
				}
				o = append(o[:p:p], o[p+l:]...)
			}
		case 2: // replace a byte
			if len(o) > 0 {
				p := rapid.IntRange(0, len(o)-1).Draw(t, "mpos")
				if rapid.Bool().Draw(t, "mdictb") {
					d := pick(t, "dict", sipDict...)
					o[p] = d[0]
				} else {
					o[p] = rapid.Byte().Draw(t, "mbyte")
				}
			}
		case 3: // duplicate a range
			if len(o) > 0 {
				p := rapid.IntRange(0, len(o)-1).Draw(t, "mpos")
				l := rapid.IntRange(1, 12).Draw(t, "mlen")
				if p+l > len(o) {
					l = len(o) - p
				}
				seg := append([]byte{}, o[p:p+l]...)
				o = append(o[:p+l:p+l], append(seg, o[p+l:]...)...)
			}
		case 4: // truncate
			if len(o) > 0 {
				p := rapid.IntRange(0, len(o)).Draw(t, "mpos")
				o = o[:p]
			}
		default: // swap two adjacent bytes
			if len(o) > 1 {
				p := rapid.IntRange(0, len(o)-2).Draw(t, "mpos")
				o[p], o[p+1] = o[p+1], o[p]
			}
		}
	}
	if len(o) > 65535 {
		o = o[:65535]
	}
	return o
}

const sipAlphabet = "abAB19 \t\r\n\"\\<>;=,:*@?&.-%[]/+$"

func genRaw(t *rapid.T, max int) []byte {
	if rapid.Bool().Draw(t, "rawuniform") {
		return rapid.SliceOfN(rapid.Byte(), 0, max).Draw(t, "raw")
	}
	return genFrom(t, "rawsip", sipAlphabet, 0, max)
}

// ---------- name-addr values ----------

// ParamSpec is one ";name[=value]" header parameter with its whitespace.
type ParamSpec struct {
	WS0   B    `json:"ws0"` // before ';'
	WS1   B    `json:"ws1"` // after ';'
	Name  B    `json:"name"`
	WS2   B    `json:"ws2"` // after name (before '=' or next ';')
	HasEq bool `json:"eq"`
	WS3   B    `json:"ws3"` // after '='
	Val   B    `json:"val"` // token or quoted string (with quotes); may be empty
}

func (p ParamSpec) render(w *bytes.Buffer) {
	w.Write(p.WS0)
	w.WriteByte(';')
	w.Write(p.WS1)
	w.Write(p.Name)
	w.Write(p.WS2)
	if p.HasEq {
		w.WriteByte('=')
		w.Write(p.WS3)
		w.Write(p.Val)
	}
}

// NameAddrSpec is one name-addr / addr-spec value.
type NameAddrSpec struct {
	Star    bool        `json:"star,omitempty"`
	Display B           `json:"display"` // as written (token words or quoted string); empty = none
	DispWS  B           `json:"disp_ws"` // LWS between display name and '<'
	Angle   bool        `json:"angle"`
	URI     B           `json:"uri"`
	Params  []ParamSpec `json:"params"`
}

func (n NameAddrSpec) Render() []byte {
	var w bytes.Buffer
	if n.Star {
		w.WriteByte('*')
		return w.Bytes()
	}
	if n.Angle {
		w.Write(n.Display)
		w.Write(n.DispWS)
		w.WriteByte('<')
		w.Write(n.URI)
		w.WriteByte('>')
	} else {
		w.Write(n.URI)
	}
	for _, p := range n.Params {
		p.render(&w)
	}
	return w.Bytes()
}

const uriSafe = "abcdefghijklmnopqrstuvwxyzABCXYZ0123456789-_.!~*'()%+$/:@&=[]"

// genURIText: URI text free of the name-addr delimiters (no WS < > " , ; ? unless in angle brackets).
func genURIText(t *rapid.T, angle bool) B {
	var w bytes.Buffer
	w.WriteString(pick(t, "scheme", "sip:", "sip:", "sips:", "tel:", "SIP:", "urn:"))
	if rapid.Bool().Draw(t, "hasuser") {
		w.Write(genFrom(t, "user", "abcxyz0123456789-_.+%", 1, 8))
		if rapid.IntRange(0, 4).Draw(t, "haspass") == 0 {
			w.WriteByte(':')
			w.Write(genFrom(t, "pass", "abc123", 0, 4))
		}
		w.WriteByte('@')
	}
	switch rapid.IntRange(0, 3).Draw(t, "hostkind") {
	case 0:
		fmt.Fprintf(&w, "%d.%d.%d.%d", rapid.IntRange(0, 255).Draw(t, "ip"), rapid.IntRange(0, 255).Draw(t, "ip"),
			rapid.IntRange(0, 255).Draw(t, "ip"), rapid.IntRange(0, 255).Draw(t, "ip"))
	case 1:
		w.WriteString(pick(t, "ip6", "[::1]", "[2001:db8::1]", "[fe80::1:2:3]"))
	default:
		w.Write(genFrom(t, "host", "abcdefgxyz0123456789-.", 1, 12))
	}
	if rapid.IntRange(0, 2).Draw(t, "hasport") == 0 {
		fmt.Fprintf(&w, ":%d", rapid.IntRange(0, 65535).Draw(t, "port"))
	}
	if angle {
		// URI parameters / headers are only unambiguous inside <>
		np := rapid.IntRange(0, 2).Draw(t, "nuparams")
		for i := 0; i < np; i++ {
			w.WriteByte(';')
			w.WriteString(pick(t, "uparam", "transport=tcp", "lr", "user=phone", "x=y", "maddr=1.2.3.4", "ttl=3", "tag=inuri", "q=0.1", "expires=77"))
		}
		if rapid.IntRange(0, 5).Draw(t, "hasuhdrs") == 0 {
			w.WriteString(pick(t, "uhdrs", "?a=b", "?subject=x&y=z", "?"))
		}
		if rapid.IntRange(0, 7).Draw(t, "comma") == 0 {
			w.WriteString(",x")
		}
	}
	return w.Bytes()
}

// genQuoted: a quoted string with escapes, commas, angle brackets, semicolons.
func genQuoted(t *rapid.T, label string) B {
	var w bytes.Buffer
	w.WriteByte('"')
	n := rapid.IntRange(0, 6).Draw(t, label+"_n")
	for i := 0; i < n; i++ {
		w.WriteString(pick(t, label, "a", "Bob", " ", ",", ";", "<", ">", "=", "\\\"", "\\\\", "\\a", "x y", "1", ":", "@", "\t", "\r\n ", "*"))
	}
	w.WriteByte('"')
	return w.Bytes()
}

func genParamName(t *rapid.T) B {
	switch weighted(t, "pname_k", 5, 4) {
	case 0:
		n := []byte(pick(t, "pname", "tag", "expires", "q", "lr", "tag", "TAG", "Tag", "Expires", "EXPIRES", "Q", "LR", "Lr"))
		if oneIn(t, "pname_ext", 8) {
			// a longer or shorter name around a known one is an ordinary parameter
			switch pick(t, "pname_extk", 0, 1, 2) {
			case 0:
				n = append(n, pick(t, "pname_suf", "x", "s", "-at", "_in", "2", "ed", "lr")...)
			case 1:
				n = append([]byte(pick(t, "pname_pre", "x", "min-", "q", "no")), n...)
			default:
				if len(n) > 1 {
					n = n[:len(n)-1]
				}
			}
		}
		return n
	default:
		return genFrom(t, "pname_r", "abcdefgtqlrxyz0123456789-_.!%*+", 1, 8)
	}
}

func genParamVal(t *rapid.T, name []byte) B {
	ln := strings.ToLower(string(name))
	switch {
	case ln == "q" && rapid.IntRange(0, 9).Draw(t, "qk") < 8:
		return B(pick(t, "qval", "0", "1", "0.5", "0.7", "1.0", "0.123", "1.000", "0.99", "0.001", "0.", "1.", ".5", "2", "1.001", "0.1234", "1.5", "abc", "0.a", "00.5", "0.05"))
	case ln == "expires" && rapid.IntRange(0, 9).Draw(t, "ek") < 8:
		if rapid.Bool().Draw(t, "esmall") {
			return B(fmt.Sprintf("%d", rapid.IntRange(0, 100000).Draw(t, "eval")))
		}
		return genDigits(t, "expd")
	}
	switch weighted(t, "pval_k", 6, 2, 1) {
	case 0:
		return genFrom(t, "pval", "abcdefxyz0123456789-_.!%*+:/", 1, 10)
	case 1:
		return genQuoted(t, "pvalq")
	default:
		return B("")
	}
}

func genParam(t *rapid.T, allowWS bool) ParamSpec {
	p := ParamSpec{}
	p.Name = genParamName(t)
	if allowWS {
		p.WS0 = genLWS(t, "ws0")
		p.WS1 = genLWS(t, "ws1")
		p.WS2 = genLWS(t, "ws2")
	}
	if rapid.IntRange(0, 9).Draw(t, "haseq") < 7 {
		p.HasEq = true
		if allowWS {
			p.WS3 = genLWS(t, "ws3")
		}
		p.Val = genParamVal(t, p.Name)
	}
	return p
}

// genNameAddr draws one well-formed name-addr value.
func genNameAddr(t *rapid.T, allowStar bool) NameAddrSpec {
	var n NameAddrSpec
	if allowStar && rapid.IntRange(0, 14).Draw(t, "star") == 0 {
		n.Star = true
		return n
	}
	n.Angle = rapid.IntRange(0, 3).Draw(t, "angle") != 0
	if n.Angle {
		switch weighted(t, "disp_k", 3, 3, 3) {
		case 0:
		case 1:
			words := rapid.IntRange(1, 3).Draw(t, "dwords")
			var w bytes.Buffer
			for i := 0; i < words; i++ {
				if i > 0 {
					w.Write(genLWS1(t, "dsep"))
				}
				w.Write(genFrom(t, "dword", "abcdefBobAlice0123-_.!%+'~", 1, 6))
			}
			n.Display = w.Bytes()
			n.DispWS = genLWS(t, "dispws")
		default:
			n.Display = genQuoted(t, "dq")
			n.DispWS = genLWS(t, "dispws")
		}
	}
	n.URI = genURIText(t, n.Angle)
	np := rapid.IntRange(0, 4).Draw(t, "nparams")
	ws := rapid.IntRange(0, 2).Draw(t, "paramws") != 0
	for i := 0; i < np; i++ {
		n.Params = append(n.Params, genParam(t, ws))
	}
	return n
}

// ---------- headers and messages ----------

// HdrSpec is one header line.
type HdrSpec struct {
	Name    B `json:"name"`
	PreWS   B `json:"pre_ws"`   // SP/HT between name and ':'
	PostLWS B `json:"post_lws"` // LWS after ':'
	Val     B `json:"val"`      // value text from first to last non-LWS byte (may hold folds)
	TrailWS B `json:"trail_ws"` // LWS before the line end
	EOL     B `json:"eol"`
}

// normalise moves leading/trailing LWS of Val into PostLWS/TrailWS so that
// Val is exactly the text from the first to the last non-LWS byte.
func (h *HdrSpec) normalise() {
	v := []byte(h.Val)
	i, j := 0, len(v)
	for i < j && isLWSByte(v[i]) {
		i++
	}
	for j > i && isLWSByte(v[j-1]) {
		j--
	}
	if i > 0 {
		h.PostLWS = append(append(B{}, h.PostLWS...), v[:i]...)
	}
	if j < len(v) {
		h.TrailWS = append(append(B{}, v[j:]...), h.TrailWS...)
	}
	h.Val = append(B{}, v[i:j]...)
}

func (h HdrSpec) render(w *bytes.Buffer) {
	w.Write(h.Name)
	w.Write(h.PreWS)
	w.WriteByte(':')
	w.Write(h.PostLWS)
	w.Write(h.Val)
	w.Write(h.TrailWS)
	w.Write(h.EOL)
}

var knownHdrNames = []string{"From", "f", "To", "t", "Call-ID", "i", "CSeq", "Via", "v", "Max-Forwards",
	"Content-Length", "l", "Contact", "m", "Expires", "User-Agent", "Record-Route", "Route", "P-Asserted-Identity"}

func recase(t *rapid.T, s string) B {
	b := []byte(s)
	switch rapid.IntRange(0, 3).Draw(t, "recase") {
	case 0:
		return b
	case 1:
		return []byte(strings.ToLower(s))
	case 2:
		return []byte(strings.ToUpper(s))
	}
	mask := rapid.Uint32().Draw(t, "casemask")
	for i := range b {
		if mask&(1<<uint(i%32)) != 0 {
			b[i] = flipCase(b[i])
		}
	}
	return b
}

func genGenericVal(t *rapid.T) B {
	var w bytes.Buffer
	n := rapid.IntRange(0, 4).Draw(t, "gv_n")
	for i := 0; i < n; i++ {
		if i > 0 {
			w.Write(genLWS1(t, "gv_sep"))
		}
		w.Write(genFrom(t, "gv_tok", "abcxyz0123456789;=,<>\":@./-_*?&%()+", 1, 10))
	}
	return w.Bytes()
}

func genNameAddrList(t *rapid.T, maxVals int, allowStar bool) B {
	var w bytes.Buffer
	n := rapid.IntRange(1, maxVals).Draw(t, "nvals")
	if maxVals > 1 && oneIn(t, "nvals_needle", 40) {
		n = manyN(t, "nvals_many", 70)
	}
	for i := 0; i < n; i++ {
		if i > 0 {
			w.Write(genLWS(t, "lws_bc"))
			w.WriteByte(',')
			w.Write(genLWS(t, "lws_ac"))
		}
		na := genNameAddr(t, allowStar && n == 1)
		if i < n-1 && len(na.Params) > 0 {
			// known defect D14 domain note: whitespace between a parameter and ',' is legal SIP;
			// keep it possible (the generator stays complete), the checks decide.
		}
		w.Write(na.Render())
	}
	return w.Bytes()
}

func genViaVal(t *rapid.T) B {
	var w bytes.Buffer
	w.WriteString(pick(t, "viaproto", "SIP/2.0/UDP ", "SIP/2.0/TCP ", "SIP / 2.0 / UDP "))
	w.Write(genFrom(t, "viahost", "abc0123456789.", 1, 10))
	if rapid.Bool().Draw(t, "viaport") {
		w.WriteString(":5060")
	}
	np := rapid.IntRange(0, 3).Draw(t, "vianp")
	for i := 0; i < np; i++ {
		w.WriteByte(';')
		w.WriteString(pick(t, "viaparam", "branch=z9hG4bK", "branch=", "rport", "received=1.2.3.4", "ttl=1", "Branch=z9hG4bK", "x=\"q;z\""))
		w.Write(genFrom(t, "viapv", "abcdef0123456789-.", 0, 12))
	}
	return w.Bytes()
}

// genTypedVal draws a value appropriate for a header name.
func genTypedVal(t *rapid.T, lname string) B {
	switch lname {
	case "from", "f", "to", "t":
		return genNameAddr(t, false).Render()
	case "contact", "m":
		return genNameAddrList(t, 3, true)
	case "p-asserted-identity", "route", "record-route":
		return genNameAddrList(t, 3, false)
	case "call-id", "i":
		return genFrom(t, "callid", "abcdef0123456789-@.:_", 1, 24)
	case "cseq":
		var w bytes.Buffer
		if rapid.IntRange(0, 5).Draw(t, "cseqbig") == 0 {
			w.Write(genDigits(t, "cseqd"))
		} else {
			fmt.Fprintf(&w, "%d", rapid.IntRange(0, 99999).Draw(t, "cseqn"))
		}
		w.Write(genLWS1(t, "cseqws"))
		w.WriteString(pick(t, "cseqm", "INVITE", "REGISTER", "ACK", "BYE", "OPTIONS", "FOO", "invite", "NOTIFY", "1X"))
		return w.Bytes()
	case "content-length", "l":
		if rapid.IntRange(0, 8).Draw(t, "clbig") == 0 {
			return genDigits(t, "cld")
		}
		return B(fmt.Sprintf("%d", rapid.IntRange(0, 300).Draw(t, "cln")))
	case "expires", "max-forwards":
		if rapid.IntRange(0, 5).Draw(t, "exbig") == 0 {
			return genDigits(t, "exd")
		}
		return B(fmt.Sprintf("%d", rapid.IntRange(0, 100000).Draw(t, "exn")))
	case "via", "v":
		return genViaVal(t)
	}
	return genGenericVal(t)
}

// genHdr draws one header line; typed selects type-valid values for known names.
func genHdr(t *rapid.T, typed bool) HdrSpec {
	var h HdrSpec
	switch weighted(t, "hname_k", 6, 2, 1) {
	case 0:
		h.Name = recase(t, pick(t, "hname", knownHdrNames...))
	case 1:
		h.Name = genFrom(t, "hname_r", "abcdefghijklmnopqrstuvwxyzABCXYZ-0123456789", 1, 14)
	default: // near miss of a known name
		n := []byte(pick(t, "hname", knownHdrNames...))
		n = editOnce(t, n)
		var clean []byte
		for _, c := range n {
			if c > 32 && c < 127 && c != ':' {
				clean = append(clean, c)
			}
		}
		if len(clean) == 0 {
			clean = []byte("x")
		}
		h.Name = clean
	}
	h.PreWS = genWS(t, "prews")
	h.PostLWS = genLWS(t, "postlws")
	if typed {
		h.Val = genTypedVal(t, asciiLower(h.Name))
	} else {
		h.Val = genGenericVal(t)
	}
	h.TrailWS = genLWS(t, "trailws")
	h.EOL = genEOL(t, "eol")
	h.normalise()
	return h
}

// FLSpec is a first line.
type FLSpec struct {
	Req    bool `json:"req"`
	Method B    `json:"method"`
	URI    B    `json:"uri"`
	Ver    B    `json:"ver"`
	Code   B    `json:"code"`
	Reason B    `json:"reason"`
	EOL    B    `json:"eol"`
}

func (f FLSpec) render(w *bytes.Buffer) {
	if f.Req {
		w.Write(f.Method)
		w.WriteByte(' ')
		w.Write(f.URI)
		w.WriteByte(' ')
		w.Write(f.Ver)
	} else {
		w.Write(f.Ver)
		w.WriteByte(' ')
		w.Write(f.Code)
		w.WriteByte(' ')
		w.Write(f.Reason)
	}
	w.Write(f.EOL)
}

var methodNames = []string{"REGISTER", "INVITE", "ACK", "BYE", "PRACK", "CANCEL", "OPTIONS", "SUBSCRIBE",
	"NOTIFY", "UPDATE", "INFO", "REFER", "PUBLISH", "MESSAGE"}

func genFLine(t *rapid.T) FLSpec {
	var f FLSpec
	f.EOL = genEOL(t, "fl_eol")
	if rapid.IntRange(0, 2).Draw(t, "isreq") != 0 {
		f.Req = true
		switch weighted(t, "meth_k", 6, 2, 2, 2) {
		case 0:
			f.Method = B(pick(t, "meth", methodNames...))
		case 1:
			f.Method = recase(t, pick(t, "meth", methodNames...))
		case 3: // an unknown (possibly long) token that starts or ends with a table method
			pad := genFrom(t, "meth_pad", "ABCDEFGHIJKLMNOPQRSTUVWXYZ-._", 1, 24)
			if rapid.Bool().Draw(t, "meth_sfx") {
				f.Method = append(pad, pick(t, "meth", methodNames...)...)
			} else {
				f.Method = append(B(pick(t, "meth", methodNames...)), pad...)
			}
		default:
			f.Method = genFrom(t, "meth_r", "ABCDEFGHIJKLMNOPQRSTUVWXYZabc0123456789-._!%*+", 1, 10)
		}
		if strings.EqualFold(string(f.Method), "SIP/2.0") {
			f.Method = B("X")
		}
		f.URI = genFrom(t, "ruri", uriSafe+";?,\"<>", 1, 24)
		f.Ver = B(pick(t, "ver", "SIP/2.0", "SIP/2.0", "SIP/2.0", "sip/2.0", "SIP/3.0", "X"))
	} else {
		f.Ver = recase(t, "SIP/2.0")
		f.Code = B(fmt.Sprintf("%03d", rapid.IntRange(0, 999).Draw(t, "code")))
		if rapid.IntRange(0, 4).Draw(t, "emptyreason") != 0 {
			f.Reason = genFrom(t, "reason", "abcdefOKRingingxyz 0123456789\t;:,<>\"", 0, 20)
		}
	}
	return f
}

// MsgSpec is a whole message.
type MsgSpec struct {
	FL    FLSpec    `json:"fl"`
	Hdrs  []HdrSpec `json:"hdrs"`
	Blank B         `json:"blank"`
	Body  B         `json:"body"`
}

func (m MsgSpec) Render() []byte {
	var w bytes.Buffer
	m.FL.render(&w)
	for _, h := range m.Hdrs {
		h.render(&w)
	}
	w.Write(m.Blank)
	w.Write(m.Body)
	return w.Bytes()
}

func (m MsgSpec) RenderHeaders() []byte {
	var w bytes.Buffer
	for _, h := range m.Hdrs {
		h.render(&w)
	}
	w.Write(m.Blank)
	return w.Bytes()
}

// fixEOLs enforces the grammar side conditions: a lone-CR line end is not
// followed by LF, and a line end is not followed by SP/HT (that would be a fold).
func fixMsgSpec(m *MsgSpec) {
	next := func(i int) []byte { // first bytes of what follows header i
		if i+1 < len(m.Hdrs) {
			return m.Hdrs[i+1].Name
		}
		return m.Blank
	}
	for i := range m.Hdrs {
		nx := next(i)
		if string(m.Hdrs[i].EOL) == "\r" && len(nx) > 0 && nx[0] == '\n' {
			m.Hdrs[i].EOL = B("\r\n")
		}
	}
	if string(m.FL.EOL) == "\r" {
		var nx []byte
		if len(m.Hdrs) > 0 {
			nx = m.Hdrs[0].Name
		} else {
			nx = m.Blank
		}
		if len(nx) > 0 && nx[0] == '\n' {
			m.FL.EOL = B("\r\n")
		}
	}
	if string(m.Blank) == "\r" && len(m.Body) > 0 && m.Body[0] == '\n' {
		m.Blank = B("\r\n")
	}
}

// genMsgSpec draws a message. maxHdrs bounds the header count.
func genMsgSpec(t *rapid.T, maxHdrs int, typed bool) MsgSpec {
	var m MsgSpec
	m.FL = genFLine(t)
	n := rapid.IntRange(1, maxHdrs).Draw(t, "nhdrs")
	if rapid.IntRange(0, 30).Draw(t, "nohdrs") == 0 {
		n = 0
	}
	if maxHdrs >= 4 && oneIn(t, "nhdrs_needle", 50) {
		n = manyN(t, "nhdrs_many", 130)
	}
	// a core of realistic headers first, in random presence
	for i := 0; i < n; i++ {
		m.Hdrs = append(m.Hdrs, genHdr(t, typed))
	}
	m.Blank = genEOL(t, "blank")
	bodyLen := 0
	switch weighted(t, "body_k", 4, 4, 1) {
	case 1:
		bodyLen = rapid.IntRange(1, 40).Draw(t, "bodylen")
	case 2:
		bodyLen = rapid.IntRange(41, 400).Draw(t, "bodylen")
	}
	if bodyLen > 0 {
		m.Body = genFrom(t, "body", "abcdefghij v=0\r\n:", bodyLen, bodyLen)
	}
	// Content-Length policy
	switch weighted(t, "cl_k", 3, 5, 1, 1) {
	case 1:
		cl := HdrSpec{Name: recase(t, pick(t, "clname", "Content-Length", "l")), PostLWS: B(" "),
			Val: B(fmt.Sprintf("%d", len(m.Body))), EOL: B("\r\n")}
		pos := rapid.IntRange(0, len(m.Hdrs)).Draw(t, "clpos")
		m.Hdrs = append(m.Hdrs[:pos:pos], append([]HdrSpec{cl}, m.Hdrs[pos:]...)...)
	case 2:
		d := rapid.IntRange(-5, 5).Draw(t, "cldelta")
		v := len(m.Body) + d
		if v < 0 {
			v = 0
		}
		cl := HdrSpec{Name: B("Content-Length"), PostLWS: B(" "), Val: B(fmt.Sprintf("%d", v)), EOL: B("\r\n")}
		m.Hdrs = append(m.Hdrs, cl)
	case 3:
		// whatever the generic generator produced
	}
	fixMsgSpec(&m)
	return m
}

// genMsgBytes: the byte-level message generator used by the "for all byte
// strings" properties: grammar / mutated / raw mix. Returns the class label too.
func genMsgBytes(t *rapid.T, maxHdrs int) ([]byte, string) {
	switch weighted(t, "input_class", 55, 35, 10) {
	case 0:
		return genMsgSpec(t, maxHdrs, true).Render(), "grammar"
	case 1:
		b := genMsgSpec(t, maxHdrs, true).Render()
		return mutate(t, b, 4), "mutated"
	default:
		return genRaw(t, 200), "raw"
	}
}
