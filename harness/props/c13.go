package props

// C13: caller-chosen capacities only truncate what is stored, never change the parse.

import (
	"fmt"

	"github.com/intuitivelabs/sipsp"
	"pgregory.net/rapid"
)

// CaseCap: the same input parsed with the given capacities and with ample ones.
type CaseCap struct {
	Cfg   Cfg    `json:"cfg"`
	Pre   B      `json:"pre"`
	Buf   B      `json:"buf"`
	Sched []int  `json:"sched"`
	Class string `json:"class,omitempty"`
}

const ampleCap = 96

func ampleCfg(c Cfg) Cfg {
	c.HdrCap, c.CtCap, c.PCap = ampleCap, ampleCap, ampleCap
	return c
}

// capIndep renders everything the property says must not depend on the capacity.
func capIndep(st *Stepper, buf []byte, base int, e sipsp.ErrorHdr) string {
	sn := newSnap(buf, base)
	hl, pv := st.hl, st.pv
	if st.msg != nil {
		hl, pv = &st.msg.HL, &st.msg.PV
		m := st.msg
		sn.fline("FL", &m.FL)
		sn.pfPos("Body", m.Body)
		sn.kv("len(Buf)-start", len(m.Buf)-base)
		sn.kv("RawMsg", fmt.Sprintf("%d #%x", len(m.RawMsg), hashBytes(m.RawMsg)))
		sn.kv("Parsed/Err/Request/Method", fmt.Sprintf("%v/%v/%v/%v", m.Parsed(), m.Err(), m.Request(), m.Method()))
	}
	if st.hdr != nil && e == 0 {
		sn.hdr("H", st.hdr)
	}
	if hl != nil {
		sn.kv("HL.N", hl.N)
		sn.kv("HL.PFlags", fmt.Sprintf("%#x", uint(hl.PFlags)))
		for t := sipsp.HdrNone; t <= sipsp.HdrOther; t++ {
			if h := hl.GetHdr(t); h != nil && !h.Missing() {
				sn.hdr(fmt.Sprintf("GetHdr(%d)", t), h)
			}
		}
	}
	cts := st.contacts
	if pv != nil {
		cts = &pv.Contacts
		sn.from("From", &pv.From)
		sn.from("To", &pv.To)
		sn.callid("Callid", &pv.Callid)
		sn.cseq("CSeq", &pv.CSeq)
		sn.uintb("CLen", &pv.CLen)
		sn.uintb("Expires", &pv.Expires)
		sn.pais("PAIs", &pv.PAIs)
		m, okk := pv.MaxExpires()
		sn.kv("MaxExpires()", fmt.Sprintf("%d,%v", m, okk))
	}
	if cts != nil {
		sn.kv("C.N/HNo", fmt.Sprintf("%d/%d", cts.N, cts.HNo))
		sn.kv("C.Empty/Parsed", fmt.Sprintf("%v/%v", cts.Empty(), cts.Parsed()))
		if cts.N > 0 {
			sn.kv("C.Min/Max", fmt.Sprintf("%d/%d", cts.MinExpires, cts.MaxExpires))
			sn.pf("C.LastHVal", cts.LastHVal)
			if g := cts.GetContact(0); g != nil {
				sn.from("C.first", g)
			} else {
				sn.kv("C.first", "nil")
			}
			if g := cts.GetContact(cts.N - 1); g != nil {
				sn.from("C.last", g)
			} else {
				sn.kv("C.last", "nil")
			}
		}
	}
	if st.uparams != nil {
		sn.kv("UP.N/Types/vNo", fmt.Sprintf("%d/%#x/%d", st.uparams.N, uint(st.uparams.Types), st.vno))
	}
	if st.uhdrs != nil {
		sn.kv("UH.N/vNo", fmt.Sprintf("%d/%d", st.uhdrs.N, st.vno))
	}
	return sn.String()
}

func evalCap(cs CaseCap) Result {
	start := len(cs.Pre)
	full := append(append([]byte{}, cs.Pre...), cs.Buf...)
	if len(full) > 65535 {
		return Result{Skip: true}
	}
	sched := normSchedule(cs.Sched, len(cs.Buf))
	small, big := NewStepper(cs.Cfg), NewStepper(ampleCfg(cs.Cfg))
	o1, o2 := start, start
	classes := []string{"kind:" + cs.Cfg.Kind}
	if cs.Class != "" {
		classes = append(classes, cs.Class)
	}
	for j, c := range sched {
		view := full[: start+c : start+c]
		last := j == len(sched)-1
		a1, e1 := small.Step(view, o1, last)
		a2, e2 := big.Step(view, o2, last)
		if e2 == sipsp.ErrHdrMoreBytes && e1 == e2 && a1 == a2 {
			o1, o2 = a1, a2
			continue
		}
		if !big.Success(e2) && e2 != sipsp.ErrHdrMoreBytes {
			// the input does not parse successfully: outside the property's quantifier
			return ok(false, append(classes, "input-fails")...)
		}
		if e1 != e2 || a1 != a2 {
			return viol("%s: step %d (prefix %d): capacities (hdr %d, contact %d, param %d) give (%d, %v); ample capacity gives (%d, %v)\ninput=%s",
				cs.Cfg.Kind, j, c, cs.Cfg.HdrCap, cs.Cfg.CtCap, cs.Cfg.PCap, a1-start, e1, a2-start, e2, cs.Buf).with(true, classes...)
		}
		// definitive success
		s1, s2 := capIndep(small, view, start, e1), capIndep(big, view, start, e2)
		if s1 != s2 {
			return viol("%s: capacities (hdr %d, contact %d, param %d): capacity-independent results differ from ample capacity (got = small, want = ample)\n%s\ninput=%s",
				cs.Cfg.Kind, cs.Cfg.HdrCap, cs.Cfg.CtCap, cs.Cfg.PCap, diffSnap(s1, s2), cs.Buf).with(true, classes...)
		}
		truncated := false
		// the caller's own arrays are the ones that get filled (built-in 10-element arrays when none are given)
		if small.msg != nil {
			hd, ct := small.msg.HL.Hdrs, small.msg.PV.Contacts.Vals
			wantH, wantC := 10, 10
			if cs.Cfg.HdrCap >= 0 {
				wantH = cs.Cfg.HdrCap
			}
			if cs.Cfg.CtCap >= 0 {
				wantC = cs.Cfg.CtCap
			}
			if len(hd) != wantH || len(ct) != wantC {
				return viol("msg: header / contact arrays in use have %d / %d elements, the caller supplied capacities %d / %d (-1 = built-in 10)\ninput=%s",
					len(hd), len(ct), cs.Cfg.HdrCap, cs.Cfg.CtCap, cs.Buf)
			}
			if (cs.Cfg.HdrCap > 0 && &hd[0] != &small.callerHdrs[0]) || (cs.Cfg.CtCap > 0 && &ct[0] != &small.callerCts[0]) {
				return viol("msg: the parser does not fill the arrays the caller supplied (capacities %d / %d)\ninput=%s", cs.Cfg.HdrCap, cs.Cfg.CtCap, cs.Buf)
			}
		}
		// stored elements are a prefix; 'more' indicators
		hs, hb := small.hl, big.hl
		ps, pb := small.pv, big.pv
		if small.msg != nil {
			hs, hb = &small.msg.HL, &big.msg.HL
			ps, pb = &small.msg.PV, &big.msg.PV
		}
		if hs != nil {
			n := hs.N
			if n > len(hs.Hdrs) {
				n = len(hs.Hdrs)
				truncated = true
			}
			for i := 0; i < n && i < len(hb.Hdrs); i++ {
				x, y := newSnap(view, start), newSnap(view, start)
				x.hdr("h", &hs.Hdrs[i])
				y.hdr("h", &hb.Hdrs[i])
				if x.String() != y.String() {
					return viol("%s: header capacity %d: stored header %d differs from ample capacity\n%s\ninput=%s", cs.Cfg.Kind, len(hs.Hdrs), i, diffSnap(x.String(), y.String()), cs.Buf)
				}
			}
		}
		cs1, cb := small.contacts, big.contacts
		if ps != nil {
			cs1, cb = &ps.Contacts, &pb.Contacts
		}
		if cs1 != nil {
			if cs1.More() != (cs1.N > len(cs1.Vals)) {
				return viol("contacts.More() = %v with N=%d capacity %d", cs1.More(), cs1.N, len(cs1.Vals))
			}
			if cs1.More() {
				truncated = true
			}
			if cs1.VNo() != minInt(cs1.N, len(cs1.Vals)) {
				return viol("contacts.VNo() = %d with N=%d capacity %d", cs1.VNo(), cs1.N, len(cs1.Vals))
			}
			for i := 0; i < cs1.VNo() && i < cb.VNo(); i++ {
				x, y := newSnap(view, start), newSnap(view, start)
				x.from("c", &cs1.Vals[i])
				y.from("c", &cb.Vals[i])
				if x.String() != y.String() {
					return viol("%s: contact capacity %d: stored contact %d differs from ample capacity\n%s\ninput=%s", cs.Cfg.Kind, len(cs1.Vals), i, diffSnap(x.String(), y.String()), cs.Buf)
				}
			}
			// first and last stay retrievable and equal the ample ones
			if cb.N > 0 && cb.N <= len(cb.Vals) {
				for _, idx := range []int{0, cb.N - 1} {
					g := cs1.GetContact(idx)
					if g == nil {
						return viol("%s: contact capacity %d, %d values: GetContact(%d) = nil\ninput=%s", cs.Cfg.Kind, len(cs1.Vals), cs1.N, idx, cs.Buf)
					}
					x, y := newSnap(view, start), newSnap(view, start)
					x.from("c", g)
					y.from("c", &cb.Vals[idx])
					if x.String() != y.String() {
						return viol("%s: contact capacity %d, %d values: GetContact(%d) differs from the value stored with ample capacity\n%s\ninput=%s",
							cs.Cfg.Kind, len(cs1.Vals), cs1.N, idx, diffSnap(x.String(), y.String()), cs.Buf)
					}
				}
			}
		}
		if small.uparams != nil {
			l, lb := small.uparams, big.uparams
			if l.More() != (l.N > len(l.Params)) || l.PNo() != minInt(l.N, len(l.Params)) {
				return viol("URIParamsLst More/PNo inconsistent: N=%d cap=%d More=%v PNo=%d", l.N, len(l.Params), l.More(), l.PNo())
			}
			truncated = truncated || l.More()
			for i := 0; i < l.PNo() && i < lb.PNo(); i++ {
				x, y := newSnap(view, start), newSnap(view, start)
				x.tok("p", &l.Params[i].Param)
				x.kv("T", l.Params[i].T)
				y.tok("p", &lb.Params[i].Param)
				y.kv("T", lb.Params[i].T)
				if x.String() != y.String() {
					return viol("uriparams capacity %d: stored parameter %d differs from ample capacity\n%s\ninput=%s", len(l.Params), i, diffSnap(x.String(), y.String()), cs.Buf)
				}
			}
		}
		if small.uhdrs != nil {
			l, lb := small.uhdrs, big.uhdrs
			if l.More() != (l.N > len(l.Hdrs)) || l.HNo() != minInt(l.N, len(l.Hdrs)) {
				return viol("URIHdrsLst More/HNo inconsistent: N=%d cap=%d More=%v HNo=%d", l.N, len(l.Hdrs), l.More(), l.HNo())
			}
			truncated = truncated || l.More()
			for i := 0; i < l.HNo() && i < lb.HNo(); i++ {
				x, y := newSnap(view, start), newSnap(view, start)
				x.tok("h", (*sipsp.PTokParam)(&l.Hdrs[i]))
				y.tok("h", (*sipsp.PTokParam)(&lb.Hdrs[i]))
				if x.String() != y.String() {
					return viol("urihdrs capacity %d: stored header %d differs from ample capacity\n%s\ninput=%s", len(l.Hdrs), i, diffSnap(x.String(), y.String()), cs.Buf)
				}
			}
		}
		// signature: same, or an explicit truncated indication when headers did not fit
		if small.msg != nil && e1 == 0 {
			g1, ge1 := sipsp.GetMsgSig(small.msg)
			g2, ge2 := sipsp.GetMsgSig(big.msg)
			if ge1 == sipsp.ErrHdrTrunc && small.msg.HL.N > len(small.msg.HL.Hdrs) {
				classes = append(classes, "sig:trunc")
			} else if ge1 != ge2 || g1 != g2 {
				return viol("msg: header capacity %d (%d headers): GetMsgSig = (%v, %v); with ample capacity (%v, %v)\ninput=%s",
					len(small.msg.HL.Hdrs), small.msg.HL.N, g1, ge1, g2, ge2, cs.Buf)
			}
		}
		if truncated {
			classes = append(classes, "truncated")
		}
		return ok(truncated, classes...)
	}
	return ok(false, append(classes, "never-definitive")...)
}

func minInt(a, b int) int {
	if a < b {
		return a
	}
	return b
}

var capKinds = []string{KMsg, KMsg, KMsg, KHeaders, KHeadersNil, KHdrLinePV, KContacts, KURIParams, KURIHdrs}

func genCapCase(t *rapid.T) CaseCap {
	kind := pick(t, "kind", capKinds...)
	cfg := genCfg(t, kind)
	cfg.HdrCap = pick(t, "hcap", -1, 0, 0, 1, 2, 3, 5, 8, 12)
	cfg.CtCap = pick(t, "ccap", -1, 0, 0, 1, 2, 3, 5)
	cfg.PCap = pick(t, "pcap", -1, 0, 1, 2, 3)
	cs := CaseCap{Cfg: cfg}
	switch kind {
	case KMsg:
		maxh := pick(t, "maxh", 6, 12, 16)
		switch weighted(t, "input_class", 7, 2, 1) {
		case 0:
			cs.Buf, cs.Class = genMsgSpec(t, maxh, true).Render(), "in:grammar"
		case 1:
			cs.Buf, cs.Class = mutate(t, genMsgSpec(t, maxh, true).Render(), 2), "in:mutated"
		default:
			cs.Buf, cs.Class = pick(t, "corpus", corpusMsgs()...), "in:corpus"
		}
	default:
		if weighted(t, "input_class", 8, 2) == 0 {
			cs.Buf, cs.Class = genFragGrammar(t, cfg), "in:grammar"
		} else {
			cs.Buf, cs.Class = mutate(t, genFragGrammar(t, cfg), 2), "in:mutated"
		}
	}
	cs.Pre = genJunkPrefix(t)
	if rapid.Bool().Draw(t, "chunked") {
		cs.Sched = genSchedule(t, len(cs.Buf), hotPositions(cs.Buf))
	}
	return cs
}

var C13Cap = Register(&Check[CaseCap]{Prop: "C13", Name: "C13.cap", Gen: genCapCase, Eval: evalCap})

// ---------- several calls accumulating into one list ----------

// CaseMulti: comma-separated segments parsed by successive calls into ONE list
// (the way contact values of several header lines accumulate), small vs ample capacity.
type CaseMulti struct {
	Hdrs bool          `json:"hdrs"` // ParseAllURIHdrs instead of ParseAllURIParams
	Segs []TokListSpec `json:"segs"`
	PCap int           `json:"p_cap"`
}

func runMulti(c CaseMulti, capN int) (string, int) {
	flags := sipsp.POptTokCommaTermF
	var buf []byte
	var ends []int
	for i, sg := range c.Segs {
		sg.Flags = uint(sipsp.POptParamSemiSepF | sipsp.POptTokCommaTermF)
		if c.Hdrs {
			sg.Flags = uint(sipsp.POptParamAmpSepF | sipsp.POptTokURIHdrF | sipsp.POptTokCommaTermF)
		}
		sg.Term, sg.Tail = "end", nil
		buf = append(buf, sg.Render()...)
		if i < len(c.Segs)-1 {
			buf = append(buf, ',')
		}
		ends = append(ends, len(buf))
	}
	var up sipsp.URIParamsLst
	var uh sipsp.URIHdrsLst
	if capN >= 0 {
		up.Init(make([]sipsp.URIParam, capN))
		uh.Init(make([]sipsp.URIHdr, capN))
	}
	out := ""
	offs := 0
	total := 0
	for i := range c.Segs {
		f := flags
		if i == len(c.Segs)-1 {
			f |= sipsp.POptInputEndF
		}
		var o, n int
		var e sipsp.ErrorHdr
		if c.Hdrs {
			o, n, e = sipsp.ParseAllURIHdrs(buf, offs, &uh, f)
			out += fmt.Sprintf("call %d: (%d,%d,%v) N=%d\n", i, o, n, e, uh.N)
		} else {
			o, n, e = sipsp.ParseAllURIParams(buf, offs, &up, f)
			out += fmt.Sprintf("call %d: (%d,%d,%v) N=%d Types=%#x\n", i, o, n, e, up.N, uint(up.Types))
		}
		total += n
		if e != 0 && e != sipsp.ErrHdrEOH {
			break
		}
		offs = o + 1 // skip the ','
	}
	return out + fmt.Sprintf("input=%s", B(buf)), total
}

var C13Multi = Register(&Check[CaseMulti]{
	Prop: "C13", Name: "C13.multicall",
	Gen: func(t *rapid.T) CaseMulti {
		c := CaseMulti{Hdrs: rapid.Bool().Draw(t, "hdrs"), PCap: pick(t, "pcap", -1, 0, 1, 2, 3)}
		n := rapid.IntRange(2, 3).Draw(t, "nsegs")
		for i := 0; i < n; i++ {
			fl := uint(sipsp.POptParamSemiSepF | sipsp.POptTokCommaTermF)
			if c.Hdrs {
				fl = uint(sipsp.POptParamAmpSepF | sipsp.POptTokURIHdrF | sipsp.POptTokCommaTermF)
			}
			l := genTokList(t, fl)
			// at least one real item, no commas inside unquoted text (the generator's alphabets have none)
			var items []TokItem
			for _, it := range l.Items {
				if len(it.Name) > 0 {
					items = append(items, it)
				}
			}
			if len(items) == 0 {
				items = []TokItem{{Name: B("p")}}
			}
			// trailing whitespace of the last item would be ambiguous with the terminator handling: keep it simple
			items[len(items)-1].WS1, items[len(items)-1].WS3 = nil, nil
			l.Items = items
			c.Segs = append(c.Segs, l)
		}
		return c
	},
	Eval: func(c CaseMulti) Result {
		small, ns := runMulti(c, c.PCap)
		big, nb := runMulti(c, ampleCap)
		if small != big || ns != nb {
			return viol("successive calls on one list: with capacity %d\n%s\nwith ample capacity\n%s", c.PCap, small, big)
		}
		return ok(c.PCap < nb, fmt.Sprintf("segs:%d", len(c.Segs)))
	},
})
