package props

// C09: name-addr values (From/To/Contact/PAI/Route) are decomposed as written.

import (
	"bytes"
	"fmt"
	"math/big"
	"sort"

	"github.com/intuitivelabs/sipsp"
	"pgregory.net/rapid"
)

// NAVal is a value inside a list, with the whitespace around the comma that follows it.
type NAVal struct {
	NA        NameAddrSpec `json:"na"`
	PreComma  B            `json:"pre_comma"`
	PostComma B            `json:"post_comma"`
}

// CaseNA: 1..m headers of one kind, each with 1..n values.
type CaseNA struct {
	HType  int       `json:"htype"`
	Hdrs   [][]NAVal `json:"hdrs"`
	Entry  string    `json:"entry"` // "direct" (ParseNameAddrPVal / ParseAll*Values on the value) or "headers" (ParseHeaders)
	Lead   B         `json:"lead"`  // LWS after the colon / before the value
	Trail  B         `json:"trail"` // LWS before the line end
	EOL    B         `json:"eol"`
	CtCap  int       `json:"ct_cap"`
	ExpHdr int64     `json:"exp_hdr"` // value of an Expires header; -1 = none
	Compct bool      `json:"compact"` // compact header name
	Sched  []int     `json:"sched"`   // "headers" entry: feed the block in these chunks (the decomposition must not depend on it)
}

// refNA is the expected decomposition of one value.
type refNA struct {
	star                      bool
	name, uri, params, tag, v []byte
	nameAt, uriAt, paramsAt   int
	tagAt, vAt                int
	hasExpires, lr            bool
	expires                   uint32
	q                         uint16
	qBad                      bool
	hasExpiresAny             bool // an expires parameter without a value: the flag is not specified, the number is 0
}

// refNameAddr renders the value at offset `at` and derives the expected result.
func refNameAddr(n NameAddrSpec, at int) ([]byte, refNA) {
	var r refNA
	var w bytes.Buffer
	r.vAt = at
	if n.Star {
		r.star = true
		r.uri, r.uriAt = []byte("*"), at
		r.v = []byte("*")
		return []byte("*"), r
	}
	if n.Angle {
		r.nameAt = at
		r.name = append([]byte{}, n.Display...)
		w.Write(n.Display)
		w.Write(n.DispWS)
		w.WriteByte('<')
		r.uriAt = at + w.Len()
		w.Write(n.URI)
		w.WriteByte('>')
	} else {
		r.uriAt = at
		w.Write(n.URI)
	}
	r.uri = append([]byte{}, n.URI...)
	end := w.Len() // end of the value so far (trimmed)
	for i, p := range n.Params {
		w.Write(p.WS0)
		w.WriteByte(';')
		w.Write(p.WS1)
		if i == 0 {
			r.paramsAt = at + w.Len()
		}
		w.Write(p.Name)
		end = w.Len()
		w.Write(p.WS2)
		ln := asciiLower(p.Name)
		if p.HasEq {
			w.WriteByte('=')
			end = w.Len()
			w.Write(p.WS3)
			valAt := at + w.Len()
			w.Write(p.Val)
			if len(p.Val) > 0 {
				end = w.Len()
			}
			switch {
			case ln == "tag" && len(p.Val) > 0:
				r.tag, r.tagAt = append([]byte{}, p.Val...), valAt
			case ln == "expires" && len(p.Val) > 0 && allDigits(p.Val):
				r.hasExpires = true
				v := decToBig(string(p.Val))
				if v.Cmp(bigMaxU32) > 0 {
					r.expires = ^uint32(0)
				} else {
					r.expires = uint32(v.Uint64())
				}
			case ln == "q" && len(p.Val) > 0:
				if q, okq := refQ(p.Val); okq {
					r.q = q
				} else {
					r.qBad = true
				}
			}
		}
		if ln == "lr" {
			r.lr = true
		}
		if ln == "expires" && (!p.HasEq || len(p.Val) == 0) {
			r.hasExpiresAny = true
		}
	}
	all := w.Bytes()
	r.v = append([]byte{}, all[:end]...)
	if len(n.Params) > 0 {
		r.params = append([]byte{}, all[r.paramsAt-at:end]...)
	}
	return all, r
}

// refQ: RFC 3261 qvalue -> q*1000.
func refQ(v []byte) (uint16, bool) {
	if len(v) == 0 || len(v) > 5 {
		return 0, false
	}
	if v[0] != '0' && v[0] != '1' {
		return 0, false
	}
	if len(v) == 1 {
		return uint16(v[0]-'0') * 1000, true
	}
	if v[1] != '.' {
		return 0, false
	}
	frac := v[2:]
	val := 0
	scale := 100
	for _, c := range frac {
		if c < '0' || c > '9' {
			return 0, false
		}
		val += int(c-'0') * scale
		scale /= 10
	}
	if v[0] == '1' && val != 0 {
		return 0, false
	}
	return uint16(int(v[0]-'0')*1000 + val), true
}

func cmpNA(what string, buf []byte, f *sipsp.PFromBody, r refNA, wantType sipsp.HdrT) string {
	get := func(p sipsp.PField) []byte { return p.Get(buf) }
	if f.Star != r.star {
		return fmt.Sprintf("%s: Star = %v, want %v", what, f.Star, r.star)
	}
	if int(f.URI.Offs) != r.uriAt || !bytes.Equal(get(f.URI), r.uri) {
		return fmt.Sprintf("%s: URI = (%d) %q, want (%d) %q", what, f.URI.Offs, get(f.URI), r.uriAt, r.uri)
	}
	// (the statement lists name, URI, parameter span, tag, expires, q, lr, star and kind; the
	// whole-value field is checked up to trailing whitespace, which an empty parameter value
	// followed by whitespace and a comma leaves in it)
	if int(f.V.Offs) != r.vAt || !bytes.Equal(trimLWS(get(f.V)), r.v) {
		return fmt.Sprintf("%s: V = (%d) %q, want (%d) %q", what, f.V.Offs, get(f.V), r.vAt, r.v)
	}
	// display name: trailing whitespace allowed by the documentation
	if len(r.name) == 0 {
		if len(trimLWS(get(f.Name))) != 0 {
			return fmt.Sprintf("%s: Name = %q, want none", what, get(f.Name))
		}
	} else if int(f.Name.Offs) != r.nameAt || !bytes.Equal(trimLWS(get(f.Name)), r.name) {
		return fmt.Sprintf("%s: Name = (%d) %q, want (%d) %q (+ optional trailing whitespace)", what, f.Name.Offs, get(f.Name), r.nameAt, r.name)
	}
	if len(r.params) == 0 {
		if len(trimLWS(get(f.Params))) != 0 {
			return fmt.Sprintf("%s: Params = %q, want none", what, get(f.Params))
		}
	} else if int(f.Params.Offs) != r.paramsAt || !bytes.Equal(trimLWS(get(f.Params)), trimLWS(r.params)) {
		return fmt.Sprintf("%s: Params = (%d) %q, want (%d) %q (+ optional trailing whitespace)", what, f.Params.Offs, get(f.Params), r.paramsAt, r.params)
	}
	if len(r.tag) == 0 {
		if !f.Tag.Empty() {
			return fmt.Sprintf("%s: Tag = %q, want none", what, get(f.Tag))
		}
	} else if int(f.Tag.Offs) != r.tagAt || !bytes.Equal(get(f.Tag), r.tag) {
		return fmt.Sprintf("%s: Tag = (%d) %q, want (%d) %q", what, f.Tag.Offs, get(f.Tag), r.tagAt, r.tag)
	}
	if (f.HasExpires != r.hasExpires && !r.hasExpiresAny) || f.Expires != r.expires {
		return fmt.Sprintf("%s: HasExpires/Expires = %v/%d, want %v/%d", what, f.HasExpires, f.Expires, r.hasExpires, r.expires)
	}
	if !r.qBad && f.Q != r.q {
		return fmt.Sprintf("%s: Q = %d, want %d", what, f.Q, r.q)
	}
	if f.LR != r.lr {
		return fmt.Sprintf("%s: LR = %v, want %v", what, f.LR, r.lr)
	}
	if f.Type != wantType {
		return fmt.Sprintf("%s: Type = %v, want %v (the kind of header it came from)", what, f.Type, wantType)
	}
	if !f.Parsed() {
		return fmt.Sprintf("%s: Parsed() = false", what)
	}
	return ""
}

func hdrLongName(h sipsp.HdrT, compact bool) string {
	switch h {
	case sipsp.HdrFrom:
		if compact {
			return "f"
		}
		return "From"
	case sipsp.HdrTo:
		if compact {
			return "t"
		}
		return "To"
	case sipsp.HdrContact:
		if compact {
			return "m"
		}
		return "Contact"
	case sipsp.HdrPAI:
		return "P-Asserted-Identity"
	case sipsp.HdrRoute:
		return "Route"
	case sipsp.HdrRecordRoute:
		return "Record-Route"
	}
	return "X-Other"
}

func evalNA(c CaseNA) Result {
	ht := sipsp.HdrT(c.HType)
	if len(c.Hdrs) == 0 || len(c.Hdrs[0]) == 0 {
		return Result{Skip: true}
	}
	eol := c.EOL
	if len(eol) == 0 {
		eol = B("\r\n")
	}
	var w bytes.Buffer
	var refs [][]refNA // per header, per value
	var valStart, valEnd []int
	entry := c.Entry
	if entry == "direct" && len(c.Hdrs) > 1 {
		entry = "headers"
	}
	if entry == "headers" {
		w.WriteString("Via: SIP/2.0/UDP h\r\n")
	}
	for _, vals := range c.Hdrs {
		if entry == "headers" {
			w.WriteString(hdrLongName(ht, c.Compct))
			w.WriteByte(':')
		}
		w.Write(c.Lead)
		valStart = append(valStart, w.Len())
		var rs []refNA
		for i, v := range vals {
			txt, r := refNameAddr(v.NA, w.Len())
			w.Write(txt)
			rs = append(rs, r)
			if i < len(vals)-1 {
				w.Write(v.PreComma)
				w.WriteByte(',')
				w.Write(v.PostComma)
			}
		}
		refs = append(refs, rs)
		valEnd = append(valEnd, rs[len(rs)-1].vAt+len(rs[len(rs)-1].v))
		w.Write(c.Trail)
		w.Write(eol)
	}
	if entry == "headers" {
		if c.ExpHdr >= 0 {
			fmt.Fprintf(&w, "Expires: %d\r\n", c.ExpHdr)
		}
		w.WriteString("\r\n")
	} else {
		w.WriteString("X")
	}
	buf := w.Bytes()
	// flatten the expectation
	var flat []refNA
	for _, rs := range refs {
		flat = append(flat, rs...)
	}
	total := len(flat)
	nt := false
	classes := []string{"kind:" + hdrLongName(ht, false), "entry:" + entry}
	for _, r := range flat {
		if (len(r.name) > 0 || len(r.params) > 0) && (bytes.ContainsAny(r.v, " \t\r\n") || bytes.ContainsAny(r.v, "\"")) {
			nt = true
		}
	}
	if total >= 2 {
		nt = true
		classes = append(classes, "list")
	}
	var minE, maxE uint32 = ^uint32(0), 0
	for _, r := range flat {
		if r.expires > maxE {
			maxE = r.expires
		}
		if r.expires < minE {
			minE = r.expires
		}
	}
	fail := func(format string, a ...interface{}) Result {
		return viol(format+"\ninput=%s", append(a, B(buf))...).with(true, classes...)
	}
	multi := multiOK(c.HType)
	if entry == "direct" {
		end := len(buf) - 1 // before the trailing X
		switch {
		case ht == sipsp.HdrContact && c.CtCap != -2, ht == sipsp.HdrPAI && c.CtCap != -2:
			// list entry points
			if ht == sipsp.HdrContact {
				var cts sipsp.PContacts
				cts.Init(mkContacts(c.CtCap))
				o, e := sipsp.ParseAllContactValues(buf, 0, &cts)
				if e != 0 || o != end {
					return fail("ParseAllContactValues = (%d, %v), want (%d, no error)", o, e, end)
				}
				if m := cmpContacts(buf, &cts, flat, 1, minE, maxE, valStart[0], valEnd[0]); m != "" {
					return fail("%s", m)
				}
			} else {
				var p sipsp.PPAIs
				p.Init()
				// '*' is not a valid identity
				o, e := sipsp.ParseAllPAIValues(buf, 0, &p)
				if e != 0 || o != end {
					return fail("ParseAllPAIValues = (%d, %v), want (%d, no error)", o, e, end)
				}
				if m := cmpPAIs(buf, &p, flat, 1, valStart[0], valEnd[0]); m != "" {
					return fail("%s", m)
				}
			}
		default:
			// value by value, the way the documentation describes
			offs := 0
			for i, r := range flat {
				var f sipsp.PFromBody
				var o int
				var e sipsp.ErrorHdr
				if ht == sipsp.HdrFrom {
					o, e = sipsp.ParseFromVal(buf, offs, &f)
				} else {
					o, e = sipsp.ParseNameAddrPVal(ht, buf, offs, &f)
				}
				last := i == len(flat)-1
				if last {
					if e != 0 || o != end {
						return fail("value %d of %d: ParseNameAddrPVal = (%d, %v), want (%d, no error)", i, total, o, e, end)
					}
				} else {
					if !multi {
						break
					}
					if e != sipsp.ErrHdrMoreValues {
						return fail("value %d of %d: ParseNameAddrPVal = (%d, %v), want more-values", i, total, o, e)
					}
					// the returned offset is right after the comma
					if o < 1 || buf[o-1] != ',' {
						return fail("value %d of %d: more-values offset %d is not right after the comma", i, total, o)
					}
				}
				if m := cmpNA(fmt.Sprintf("value %d of %d", i, total), buf, &f, r, ht); m != "" {
					return fail("%s", m)
				}
				offs = o
			}
		}
		return ok(nt, classes...)
	}
	// through the header parser
	var hl sipsp.HdrLst
	hl.Hdrs = make([]sipsp.Hdr, 40)
	var pv sipsp.PHdrVals
	pv.Init(mkContacts(c.CtCap))
	o := 0
	var e sipsp.ErrorHdr
	for _, cpos := range normSchedule(c.Sched, len(buf)) {
		o, e = sipsp.ParseHeaders(buf[:cpos:cpos], o, &hl, &pv)
		if e != sipsp.ErrHdrMoreBytes {
			break
		}
	}
	if len(c.Sched) > 0 {
		classes = append(classes, "chunked")
	}
	if e != 0 || o != len(buf) {
		return fail("ParseHeaders (chunks %v) = (%d, %v), want (%d, no error)", c.Sched, o, e, len(buf))
	}
	switch ht {
	case sipsp.HdrFrom:
		if m := cmpNA("From", buf, &pv.From, flat[0], sipsp.HdrFrom); m != "" {
			return fail("%s", m)
		}
	case sipsp.HdrTo:
		if m := cmpNA("To", buf, &pv.To, flat[0], sipsp.HdrTo); m != "" {
			return fail("%s", m)
		}
	case sipsp.HdrContact:
		if m := cmpContacts(buf, &pv.Contacts, flat, len(c.Hdrs), minE, maxE, valStart[len(valStart)-1], valEnd[len(valEnd)-1]); m != "" {
			return fail("%s", m)
		}
		want := maxE
		if c.ExpHdr >= 0 && uint32(c.ExpHdr) > want {
			want = uint32(c.ExpHdr)
		}
		if got, okk := pv.MaxExpires(); !okk || got != want {
			return fail("MaxExpires() = (%d, %v), want (%d, true)", got, okk, want)
		}
	case sipsp.HdrPAI:
		if m := cmpPAIs(buf, &pv.PAIs, flat, len(c.Hdrs), valStart[len(valStart)-1], valEnd[len(valEnd)-1]); m != "" {
			return fail("%s", m)
		}
	}
	if ht != sipsp.HdrContact {
		// no Contact header in this block: the expires summary is the Expires header alone, or absent
		got, okk := pv.MaxExpires()
		if c.ExpHdr >= 0 {
			if !okk || got != uint32(c.ExpHdr) {
				return fail("MaxExpires() = (%d, %v) without Contact and with Expires: %d, want (%d, true)", got, okk, c.ExpHdr, c.ExpHdr)
			}
		} else if okk || got != 0 {
			return fail("MaxExpires() = (%d, %v) with neither Contact nor Expires, want (0, false)", got, okk)
		}
		if pv.Contacts.Parsed() || !pv.Contacts.Empty() || pv.Contacts.N != 0 {
			return fail("contact list not empty without a Contact header: N=%d Parsed=%v", pv.Contacts.N, pv.Contacts.Parsed())
		}
	}
	// state predicates of what was (not) parsed
	if pv.From.Parsed() != (ht == sipsp.HdrFrom) || pv.To.Parsed() != (ht == sipsp.HdrTo) ||
		pv.From.Empty() != (ht != sipsp.HdrFrom) || pv.To.Empty() != (ht != sipsp.HdrTo) || pv.From.Pending() || pv.To.Pending() {
		return fail("From/To state predicates wrong: From P/E/Pd=%v/%v/%v To P/E/Pd=%v/%v/%v", pv.From.Parsed(), pv.From.Empty(), pv.From.Pending(),
			pv.To.Parsed(), pv.To.Empty(), pv.To.Pending())
	}
	if pv.Expires.Parsed() != (c.ExpHdr >= 0) || pv.Expires.Empty() != (c.ExpHdr < 0) || pv.Expires.Pending() ||
		pv.CLen.Parsed() || !pv.CLen.Empty() || pv.Callid.Parsed() || !pv.Callid.Empty() || pv.CSeq.Parsed() || !pv.CSeq.Empty() {
		return fail("state predicates of absent / present headers wrong (Expires present=%v: P/E=%v/%v; CLen P=%v Callid P=%v CSeq P=%v)",
			c.ExpHdr >= 0, pv.Expires.Parsed(), pv.Expires.Empty(), pv.CLen.Parsed(), pv.Callid.Parsed(), pv.CSeq.Parsed())
	}
	// Hdr.Val of each header of the kind = its own trimmed value
	k := 0
	for i := 0; i < hl.N; i++ {
		if hl.Hdrs[i].Type != ht {
			continue
		}
		if k < len(valStart) {
			if ht == sipsp.HdrFrom && k > 0 || ht == sipsp.HdrTo && k > 0 {
				break
			}
			v := hl.Hdrs[i].Val
			if int(v.Offs) != valStart[k] || int(v.Offs)+int(v.Len) != valEnd[k] {
				return fail("header %d (%v #%d): Val = [%d,%d), want [%d,%d)", i, ht, k, v.Offs, int(v.Offs)+int(v.Len), valStart[k], valEnd[k])
			}
		}
		k++
	}
	if len(c.Hdrs) > 1 {
		classes = append(classes, "several-headers")
	}
	return ok(nt, classes...)
}

func cmpContacts(buf []byte, cts *sipsp.PContacts, flat []refNA, hno int, minE, maxE uint32, lastStart, lastEnd int) string {
	if cts.N != len(flat) {
		return fmt.Sprintf("contact value count N = %d, want %d", cts.N, len(flat))
	}
	if cts.HNo != hno && hno > 1 {
		return fmt.Sprintf("contact header count HNo = %d, want %d", cts.HNo, hno)
	}
	if cts.MaxExpires != maxE || cts.MinExpires != minE {
		return fmt.Sprintf("Min/MaxExpires = %d/%d, want %d/%d (over all %d values)", cts.MinExpires, cts.MaxExpires, minE, maxE, len(flat))
	}
	if cts.Parsed() != (len(flat) > 0) || cts.Empty() != (len(flat) == 0) || cts.VNo() != minInt(len(flat), len(cts.Vals)) {
		return fmt.Sprintf("contact list predicates: Parsed()=%v Empty()=%v VNo()=%d with %d values, capacity %d", cts.Parsed(), cts.Empty(), cts.VNo(), len(flat), len(cts.Vals))
	}
	if cts.More() != (len(flat) > len(cts.Vals)) {
		return fmt.Sprintf("More() = %v with %d values and capacity %d", cts.More(), len(flat), len(cts.Vals))
	}
	for i := 0; i < cts.VNo(); i++ {
		if m := cmpNA(fmt.Sprintf("contact %d of %d", i, len(flat)), buf, &cts.Vals[i], flat[i], sipsp.HdrContact); m != "" {
			return m
		}
	}
	for _, idx := range []int{0, len(flat) - 1} {
		g := cts.GetContact(idx)
		if g == nil {
			return fmt.Sprintf("GetContact(%d) = nil with %d values", idx, len(flat))
		}
		if m := cmpNA(fmt.Sprintf("GetContact(%d) of %d", idx, len(flat)), buf, g, flat[idx], sipsp.HdrContact); m != "" {
			return m
		}
	}
	if int(cts.LastHVal.Offs) != lastStart || int(cts.LastHVal.Offs)+int(cts.LastHVal.Len) != lastEnd {
		return fmt.Sprintf("LastHVal = [%d,%d), want the last header's value [%d,%d)", cts.LastHVal.Offs, int(cts.LastHVal.Offs)+int(cts.LastHVal.Len), lastStart, lastEnd)
	}
	return ""
}

func cmpPAIs(buf []byte, p *sipsp.PPAIs, flat []refNA, hno int, lastStart, lastEnd int) string {
	if p.N != len(flat) {
		return fmt.Sprintf("identity value count N = %d, want %d", p.N, len(flat))
	}
	if p.HNo != hno && hno > 1 {
		return fmt.Sprintf("identity header count HNo = %d, want %d", p.HNo, hno)
	}
	if p.Parsed() != (len(flat) > 0) || p.Empty() != (len(flat) == 0) || p.VNo() != minInt(len(flat), len(p.Vals)) {
		return fmt.Sprintf("identity list predicates: Parsed()=%v Empty()=%v VNo()=%d with %d values", p.Parsed(), p.Empty(), p.VNo(), len(flat))
	}
	for i := 0; i < 4; i++ {
		if g := p.GetPAI(i); (g != nil) != (i < p.VNo()) {
			return fmt.Sprintf("GetPAI(%d) = %v with %d stored values", i, g != nil, p.VNo())
		}
	}
	if p.More() != (len(flat) > len(p.Vals)) {
		return fmt.Sprintf("More() = %v with %d values", p.More(), len(flat))
	}
	for i := 0; i < p.VNo(); i++ {
		if m := cmpNA(fmt.Sprintf("identity %d of %d", i, len(flat)), buf, &p.Vals[i], flat[i], sipsp.HdrPAI); m != "" {
			return m
		}
	}
	if int(p.LastHVal.Offs) != lastStart || int(p.LastHVal.Offs)+int(p.LastHVal.Len) != lastEnd {
		return fmt.Sprintf("LastHVal = [%d,%d), want the last header's value [%d,%d)", p.LastHVal.Offs, int(p.LastHVal.Offs)+int(p.LastHVal.Len), lastStart, lastEnd)
	}
	return ""
}

// genNAForModel: like genNameAddr, but known parameters appear at most once and
// tag/expires/q always carry a well-formed value (other shapes are unspecified or belong to C10).
func genNAForModel(t *rapid.T, allowStar bool, bigExpires bool) NameAddrSpec {
	n := genNameAddr(t, allowStar)
	if n.Star {
		return n
	}
	seen := map[string]bool{}
	var ps []ParamSpec
	for _, p := range n.Params {
		ln := asciiLower(p.Name)
		if seen[ln] {
			continue
		}
		seen[ln] = true
		if (ln == "tag" || ln == "expires" || ln == "q") && rapid.IntRange(0, 5).Draw(t, "valueless") == 0 {
			// written without a value (";tag", ";expires=", ";q"): nothing to report for it
			p.HasEq = rapid.Bool().Draw(t, "emptyeq")
			p.Val = nil
			ps = append(ps, p)
			continue
		}
		switch ln {
		case "tag":
			p.HasEq = true
			if len(p.Val) == 0 {
				p.Val = genFrom(t, "tagv", "abcdef0123456789-.", 1, 10)
			}
		case "expires":
			p.HasEq = true
			if bigExpires && rapid.IntRange(0, 3).Draw(t, "bigexp") == 0 {
				p.Val = genDigits(t, "expd")
			} else {
				p.Val = B(fmt.Sprintf("%d", rapid.IntRange(0, 100000).Draw(t, "expv")))
			}
		case "q":
			p.HasEq = true
			p.Val = B(pick(t, "qv", "0", "1", "0.", "1.", "0.5", "0.7", "1.0", "0.12", "0.123", "1.00", "1.000", "0.001", "0.999", "0.05", "0.000"))
		}
		ps = append(ps, p)
	}
	n.Params = ps
	return n
}

func genCaseNA(t *rapid.T) CaseNA {
	c := CaseNA{ExpHdr: -1}
	c.HType = pick(t, "htype", int(sipsp.HdrFrom), int(sipsp.HdrTo), int(sipsp.HdrContact), int(sipsp.HdrContact),
		int(sipsp.HdrPAI), int(sipsp.HdrRoute), int(sipsp.HdrRecordRoute))
	ht := sipsp.HdrT(c.HType)
	multi := multiOK(c.HType)
	nh := 1
	if multi && rapid.IntRange(0, 2).Draw(t, "manyhdrs") == 0 {
		nh = rapid.IntRange(2, 3).Draw(t, "nh")
	}
	for h := 0; h < nh; h++ {
		nv := 1
		if multi {
			nv = rapid.IntRange(1, 4).Draw(t, "nv")
			if oneIn(t, "nv_needle", 40) {
				nv = manyN(t, "nv_many", 70)
			}
		}
		var vals []NAVal
		for i := 0; i < nv; i++ {
			v := NAVal{NA: genNAForModel(t, ht == sipsp.HdrContact && nv == 1 && nh == 1, true)}
			v.PreComma = genLWS(t, "precomma")
			v.PostComma = genLWS(t, "postcomma")
			vals = append(vals, v)
		}
		c.Hdrs = append(c.Hdrs, vals)
	}
	c.Entry = pick(t, "entry", "direct", "headers")
	if ht == sipsp.HdrRoute || ht == sipsp.HdrRecordRoute {
		c.Entry = "direct"
		c.Hdrs = c.Hdrs[:1]
	}
	c.Lead = genLWS(t, "lead")
	c.Trail = genLWS(t, "trail")
	c.EOL = genEOL(t, "eol")
	if string(c.EOL) == "\r" {
		c.EOL = B("\r\n") // next line starts with a known byte; keep the lone CR for C07
	}
	c.CtCap = pick(t, "ctcap", -1, 0, 1, 2, 3, 10, -2, 16, 17, 33)
	if c.CtCap == -2 && c.Entry == "headers" {
		c.CtCap = -1
	}
	if rapid.IntRange(0, 2).Draw(t, "exphdr") == 0 {
		c.ExpHdr = int64(rapid.Uint32().Draw(t, "exphdrv"))
	}
	c.Compct = rapid.Bool().Draw(t, "compact")
	if c.Entry == "headers" && rapid.Bool().Draw(t, "chunked") {
		n := rapid.IntRange(1, 4).Draw(t, "ncuts")
		for i := 0; i < n; i++ {
			c.Sched = append(c.Sched, rapid.IntRange(1, 400).Draw(t, "cut"))
		}
		sort.Ints(c.Sched)
	}
	return c
}

var C09NA = Register(&Check[CaseNA]{Prop: "C09", Name: "C09.nameaddr", Gen: genCaseNA, Eval: evalNA})

var _ = big.NewInt

// enumNA enumerates small name-addr specs exhaustively for the same model-by-construction oracle: every display-name
// form (none, token, two tokens, quoted string holding delimiters) x blank kinds before '<', bracketed URI with its own
// parameters or bare URI, 0..2 header parameters out of {tag, expires, q, lr, quoted generic, value-less tag, re-cased
// expires, expiresx, qq} with a blank in each of the four whitespace slots (one parameter) or in all / none (two parameters), for
// From / To / Contact / P-Asserted-Identity, direct and through ParseHeaders, two line ends, blanks after the colon and
// before the line end, no / zero / small contact array; two-value headers over a representative subset with blanks
// around the comma; Contact: *. allCuts: the "headers" entry is also fed under every single cut of the block.
func enumNA(allCuts bool, shard, nshards int, emit func(CaseNA) bool) {
	type disp struct{ d, ws string }
	disps := []disp{{"", ""}}
	for _, d := range []string{"Bob", "Bob  X.", "\"A, <B>;\\\"q\""} {
		for _, ws := range []string{"", " ", "\r\n "} {
			disps = append(disps, disp{d, ws})
		}
	}
	base := []ParamSpec{
		{Name: B("tag"), HasEq: true, Val: B("t1-a.b")},
		{Name: B("expires"), HasEq: true, Val: B("60")},
		{Name: B("q"), HasEq: true, Val: B("0.5")},
		{Name: B("lr")},
		{Name: B("x"), HasEq: true, Val: B("\"q,;<>\"")},
		{Name: B("tag")},
		{Name: B("Expires"), HasEq: true, Val: B("7")},
		{Name: B("expiresx"), HasEq: true, Val: B("7200")},
		{Name: B("qq"), HasEq: true, Val: B("0.9")},
	}
	wsv := []string{"", " "}
	var plists [][]ParamSpec
	plists = append(plists, nil)
	for _, p := range base {
		for _, w0 := range wsv {
			for _, w1 := range wsv {
				for _, w2 := range wsv {
					for _, w3 := range wsv {
						q := p
						q.WS0, q.WS1, q.WS2 = B(w0), B(w1), B(w2)
						if q.HasEq {
							q.WS3 = B(w3)
						} else if w3 != "" {
							continue
						}
						plists = append(plists, []ParamSpec{q})
					}
				}
			}
		}
	}
	for _, p1 := range base {
		for _, p2 := range base {
			if asciiLower(p1.Name) == asciiLower(p2.Name) {
				continue
			}
			for _, w := range wsv {
				a, b := p1, p2
				a.WS0, a.WS1, a.WS2 = B(w), B(w), B(w)
				b.WS0, b.WS1, b.WS2 = B(w), B(w), B(w)
				if a.HasEq {
					a.WS3 = B(w)
				}
				if b.HasEq {
					b.WS3 = B(w)
				}
				plists = append(plists, []ParamSpec{a, b})
			}
		}
	}
	var nas []NameAddrSpec
	for _, pl := range plists {
		for _, d := range disps {
			nas = append(nas, NameAddrSpec{Display: B(d.d), DispWS: B(d.ws), Angle: true, URI: B("sip:a@h.example;x=1?y=z"), Params: pl})
		}
		nas = append(nas, NameAddrSpec{URI: B("sip:a@h.example"), Params: pl})
	}
	types := []sipsp.HdrT{sipsp.HdrFrom, sipsp.HdrTo, sipsp.HdrContact, sipsp.HdrPAI}
	idx := 0
	mk := func(ht sipsp.HdrT, hdrs [][]NAVal, entry, lead, trail, eol string, ctcap int) bool {
		c := CaseNA{HType: int(ht), Hdrs: hdrs, Entry: entry, Lead: B(lead), Trail: B(trail), EOL: B(eol), CtCap: ctcap, ExpHdr: -1}
		if !emit(c) {
			return false
		}
		if entry != "headers" {
			return true
		}
		n := 40
		for _, h := range hdrs {
			for _, v := range h {
				n += len(v.NA.Render()) + 4
			}
		}
		cuts := []int{n / 2}
		if allCuts {
			cuts = cuts[:0]
			for k := 1; k < n; k++ {
				cuts = append(cuts, k)
			}
		}
		for _, k := range cuts {
			c.Sched = []int{k}
			if !emit(c) {
				return false
			}
		}
		return true
	}
	for _, na := range nas {
		for _, ht := range types {
			idx++
			if idx%nshards != shard {
				continue
			}
			for _, entry := range []string{"direct", "headers"} {
				for _, lead := range []string{"", " "} {
					for _, trail := range []string{"", " "} {
						for _, eol := range []string{"\r\n", "\n"} {
							for _, ctcap := range []int{-1, 0} {
								if !mk(ht, [][]NAVal{{{NA: na}}}, entry, lead, trail, eol, ctcap) {
									return
								}
							}
						}
					}
				}
			}
		}
	}
	// two values per header, two headers
	var rep []NameAddrSpec
	for i := 0; i < len(nas); i += len(nas)/14 + 1 {
		rep = append(rep, nas[i])
	}
	for _, a := range rep {
		for _, b := range rep {
			idx++
			if idx%nshards != shard {
				continue
			}
			for _, ht := range []sipsp.HdrT{sipsp.HdrContact, sipsp.HdrPAI} {
				for _, pre := range wsv {
					for _, post := range wsv {
						for _, entry := range []string{"direct", "headers"} {
							for _, ctcap := range []int{0, 1, 10} {
								vals := []NAVal{{NA: a}, {NA: b, PreComma: B(pre), PostComma: B(post)}}
								hdrs := [][]NAVal{vals}
								if entry == "headers" {
									hdrs = append(hdrs, []NAVal{{NA: b}})
								}
								if !mk(ht, hdrs, entry, " ", "", "\r\n", ctcap) {
									return
								}
							}
						}
					}
				}
			}
		}
	}
	if shard == 0 {
		for _, entry := range []string{"direct", "headers"} {
			for _, trail := range []string{"", " ", "\r\n "} {
				if !mk(sipsp.HdrContact, [][]NAVal{{{NA: NameAddrSpec{Star: true}}}}, entry, " ", trail, "\r\n", -1) {
					return
				}
			}
		}
	}
}
