package props

// resume.go: C01 (whole message) and C02 (every stand-alone streaming parser):
// resumed parsing over any chunk schedule equals one-shot parsing of the same prefix.

import (
	"fmt"
	"testing"

	"github.com/intuitivelabs/sipsp"
	"pgregory.net/rapid"
)

// CaseResume is one (input, configuration, schedule) triple.
type CaseResume struct {
	Cfg   Cfg    `json:"cfg"`
	Pre   B      `json:"pre"`   // junk before the text: start offset = len(pre)
	Buf   B      `json:"buf"`   // the text
	Sched []int  `json:"sched"` // strictly increasing prefix lengths of buf, last = len(buf)
	Fresh bool   `json:"fresh"` // every call gets a fresh exact-capacity copy of the prefix
	Class string `json:"class,omitempty"`
}

func cutClasses(buf []byte, c int) []string {
	var cl []string
	if c <= 0 || c >= len(buf) {
		return cl
	}
	a, b := buf[c-1], buf[c]
	if a == '\r' && b == '\n' {
		cl = append(cl, "cut:in-CRLF")
	}
	if (a == '\r' || a == '\n') && (b == ' ' || b == '\t') {
		cl = append(cl, "cut:before-fold")
	}
	if a == '\\' {
		cl = append(cl, "cut:after-backslash")
	}
	if isDigit(a) && isDigit(b) {
		cl = append(cl, "cut:in-number")
	}
	if a == ' ' || a == '\t' || b == ' ' || b == '\t' {
		cl = append(cl, "cut:at-WS")
	}
	if b == '=' || b == ';' || b == ',' || a == '=' || a == ';' || a == ',' {
		cl = append(cl, "cut:at-delim")
	}
	if (a == '\n' || a == '\r') && (b == '\r' || b == '\n') && !(a == '\r' && b == '\n') {
		cl = append(cl, "cut:blank-line")
	}
	// inside quotes: odd number of unescaped quotes since the last line end
	q := 0
	for i := c - 1; i >= 0 && buf[i] != '\n'; i-- {
		if buf[i] == '"' && (i == 0 || buf[i-1] != '\\') {
			q++
		}
	}
	if q%2 == 1 {
		cl = append(cl, "cut:in-quotes")
	}
	return cl
}

func evalResume(cs CaseResume) Result {
	start := len(cs.Pre)
	full := append(append([]byte{}, cs.Pre...), cs.Buf...)
	if len(full) > 65535 {
		return Result{Skip: true}
	}
	sched := normSchedule(cs.Sched, len(cs.Buf))
	st := NewStepper(cs.Cfg)
	o := start
	susp := 0
	classes := []string{"kind:" + cs.Cfg.Kind}
	if cs.Class != "" {
		classes = append(classes, cs.Class)
	}
	suspIn := map[string]bool{}
	for j, c := range sched {
		n := start + c
		view := full[:n:n]
		if cs.Fresh {
			view = append(make([]byte, 0, n), full[:n]...)
		}
		last := j == len(sched)-1
		o2, e2 := st.Step(view, o, last)
		ref, ro, re := oneShot(cs.Cfg, view, start, last)
		if e2 != re || o2 != ro {
			return viol("%s: step %d (prefix %d of %d, resumed from offset %d): resumed call returned (%d, %v) but a fresh one-shot parse of the same prefix returns (%d, %v)\nprefix=%s",
				cs.Cfg.Kind, j, c, len(cs.Buf), o-start, o2-start, e2, ro-start, re, B(view[start:])).with(true, classes...)
		}
		if e2 != sipsp.ErrHdrMoreBytes {
			a := st.Snap(view, start, e2)
			b := ref.Snap(view, start, re)
			if a != b {
				return viol("%s: verdict (%d, %v) after %d suspensions (schedule %v): values read back differ from the one-shot parse\n%s\ninput=%s",
					cs.Cfg.Kind, o2-start, e2, susp, sched[:j+1], diffSnap(a, b), B(view[start:])).with(true, classes...)
			}
			if susp > 0 {
				classes = append(classes, "definitive-after-suspension")
				for k := range suspIn {
					classes = append(classes, k)
				}
				if st.Success(e2) {
					classes = append(classes, "outcome:success")
				} else {
					classes = append(classes, "outcome:error")
				}
			}
			nt := susp > 0
			if cs.Cfg.Kind == KMsg {
				nt = suspIn["susp:fline"] || suspIn["susp:headers"]
			}
			return ok(nt, classes...)
		}
		// suspended
		susp++
		if j < len(sched)-1 {
			for _, k := range cutClasses(cs.Buf, c) {
				suspIn[k] = true
			}
		}
		if st.msg != nil {
			switch {
			case !st.msg.FL.Parsed():
				suspIn["susp:fline"] = true
			case st.msg.Body.Offs == 0 && st.msg.Body.Len == 0:
				suspIn["susp:headers"] = true
			default:
				suspIn["susp:body"] = true
			}
		}
		o = o2
	}
	classes = append(classes, "never-definitive")
	return ok(false, classes...)
}

// diffSnap shows the lines that differ between two snapshots.
func diffSnap(a, b string) string {
	la, lb := splitLines(a), splitLines(b)
	out := ""
	n := len(la)
	if len(lb) > n {
		n = len(lb)
	}
	shown := 0
	for i := 0; i < n && shown < 12; i++ {
		var x, y string
		if i < len(la) {
			x = la[i]
		}
		if i < len(lb) {
			y = lb[i]
		}
		if x != y {
			out += fmt.Sprintf("  got : %s\n  want: %s\n", x, y)
			shown++
		}
	}
	return out
}

func splitLines(s string) []string {
	var o []string
	cur := 0
	for i := 0; i < len(s); i++ {
		if s[i] == '\n' {
			o = append(o, s[cur:i])
			cur = i + 1
		}
	}
	if cur < len(s) {
		o = append(o, s[cur:])
	}
	return o
}

func genResumeCase(t *rapid.T, kind string) CaseResume {
	cfg := genCfg(t, kind)
	var buf []byte
	var class string
	if kind == KMsg {
		maxh := 8
		if rapid.IntRange(0, 9).Draw(t, "manyhdrs") == 0 {
			maxh = 30
		}
		switch weighted(t, "input_class", 55, 35, 10) {
		case 0:
			buf, class = genMsgSpec(t, maxh, true).Render(), "in:grammar"
		case 1:
			buf, class = mutate(t, genMsgSpec(t, maxh, true).Render(), 4), "in:mutated"
		default:
			buf, class = genRaw(t, 200), "in:raw"
		}
	} else {
		buf, class = genFragment(t, cfg)
	}
	cs := CaseResume{Cfg: cfg, Buf: buf, Class: class}
	cs.Pre = genJunkPrefix(t)
	cs.Sched = genSchedule(t, len(buf), hotPositions(buf))
	cs.Fresh = rapid.Bool().Draw(t, "fresh")
	return cs
}

var C01Msg = Register(&Check[CaseResume]{
	Prop: "C01", Name: "C01.msg",
	Gen:  func(t *rapid.T) CaseResume { return genResumeCase(t, KMsg) },
	Eval: evalResume,
})

var C02Sub = Register(&Check[CaseResume]{
	Prop: "C02", Name: "C02.sub",
	Gen: func(t *rapid.T) CaseResume {
		kinds := subKinds
		if k := envKinds(); k != nil {
			kinds = k
		}
		return genResumeCase(t, pick(t, "kind", kinds...))
	},
	Eval: evalResume,
})

// envKinds lets the driver dedicate a shard to some parser kinds.
func envKinds() []string {
	sh := envInt("VERIF_SHARD", -1)
	n := envInt("VERIF_NSHARDS", 0)
	if sh < 0 || n <= 1 || envInt("VERIF_SPLIT_KINDS", 0) == 0 {
		return nil
	}
	var o []string
	for i, k := range subKinds {
		if i%n == sh {
			o = append(o, k)
		}
	}
	return o
}

var C02Scope = Register(&Check[CaseAllCuts]{Prop: "C02", Name: "C02.scope", Eval: evalAllCuts})
var C01Scope = Register(&Check[CaseAllCuts]{Prop: "C01", Name: "C01.scope", Eval: evalAllCuts})

// runScopes enumerates the given scopes with the check.
func runScopes(t *testing.T, chk *Check[CaseAllCuts], scs []Scope) {
	var jobs []func(emit func(CaseAllCuts) bool)
	var descs []string
	for _, sc := range scs {
		sc := sc
		descs = append(descs, sc.Desc())
		for sh := 0; sh < sc.NShards(); sh++ {
			sh := sh
			jobs = append(jobs, func(emit func(CaseAllCuts) bool) {
				sc.Produce(sh, func(b []byte) bool {
					return emit(CaseAllCuts{Cfg: sc.Cfg, Buf: append(B{}, b...)})
				})
			})
		}
	}
	chk.RunJobs(t, descs, jobs)
}

var C01Corpus = Register(&Check[CaseAllCuts]{Prop: "C01", Name: "C01.corpus", Eval: evalAllCuts})
