package props

// model.go: small independent reference models.

import (
	"math/big"
)

func bigInt(v int64) *big.Int { return big.NewInt(v) }

// decToBig converts a decimal digit string (no sign) to a big integer.
func decToBig(s string) *big.Int {
	v := new(big.Int)
	ten := big.NewInt(10)
	for i := 0; i < len(s); i++ {
		v.Mul(v, ten)
		v.Add(v, big.NewInt(int64(s[i]-'0')))
	}
	return v
}

func allDigits(b []byte) bool {
	if len(b) == 0 {
		return false
	}
	for _, c := range b {
		if c < '0' || c > '9' {
			return false
		}
	}
	return true
}

var (
	big2p16   = new(big.Int).Lsh(big.NewInt(1), 16)
	big2p24   = new(big.Int).Lsh(big.NewInt(1), 24)
	big2p32   = new(big.Int).Lsh(big.NewInt(1), 32)
	bigMaxU32 = new(big.Int).Sub(big2p32, big.NewInt(1))
)

func isLWSByte(c byte) bool { return c == ' ' || c == '\t' || c == '\r' || c == '\n' }

// trimLWS removes leading and trailing SP/HT/CR/LF.
func trimLWS(b []byte) []byte {
	i, j := 0, len(b)
	for i < j && isLWSByte(b[i]) {
		i++
	}
	for j > i && isLWSByte(b[j-1]) {
		j--
	}
	return b[i:j]
}
