package props

// C04: crash-free, terminating, offset-sane on arbitrary bytes; isolation.

import (
	"fmt"
	"sync"

	"github.com/intuitivelabs/sipsp"
	"pgregory.net/rapid"
)

// ---------- streaming parsers on arbitrary bytes ----------

// CaseSane: arbitrary bytes, any start offset, any configuration, any schedule.
type CaseSane struct {
	Cfg    Cfg    `json:"cfg"`
	Buf    B      `json:"buf"`
	Offs   int    `json:"offs"`    // start offset 0..len(buf)
	Sched  []int  `json:"sched"`   // prefix lengths (absolute, > offs), last = len(buf)
	ZeroOb bool   `json:"zero_ob"` // use zero-value objects (no Init, nil arrays)
	Class  string `json:"class,omitempty"`
}

func zeroStepper(cfg Cfg) *Stepper {
	s := &Stepper{cfg: cfg}
	switch cfg.Kind {
	case KMsg:
		s.msg = &sipsp.PSIPMsg{}
	case KHdrLinePV:
		s.hdr = &sipsp.Hdr{}
		s.pv = &sipsp.PHdrVals{}
	case KHeaders:
		s.hl = &sipsp.HdrLst{}
		s.pv = &sipsp.PHdrVals{}
	case KHeadersNil:
		s.hl = &sipsp.HdrLst{}
	case KContacts:
		s.contacts = &sipsp.PContacts{}
	case KPAIs:
		s.pais = &sipsp.PPAIs{}
	case KURIParams:
		s.uparams = &sipsp.URIParamsLst{}
	case KURIHdrs:
		s.uhdrs = &sipsp.URIHdrsLst{}
	default:
		return NewStepper(cfg)
	}
	return s
}

func evalSane(cs CaseSane) Result {
	buf := []byte(cs.Buf)
	if len(buf) > 65535 {
		return Result{Skip: true}
	}
	offs := cs.Offs
	if offs < 0 {
		offs = 0
	}
	if offs > len(buf) {
		offs = len(buf)
	}
	var sched []int
	prev := offs - 1
	for _, c := range cs.Sched {
		if c > prev && c <= len(buf) && c >= offs {
			sched = append(sched, c)
			prev = c
		}
	}
	if len(sched) == 0 || sched[len(sched)-1] != len(buf) {
		sched = append(sched, len(buf))
	}
	var st *Stepper
	if cs.ZeroOb {
		st = zeroStepper(cs.Cfg)
	} else {
		st = NewStepper(cs.Cfg)
	}
	classes := []string{"kind:" + cs.Cfg.Kind}
	if cs.Class != "" {
		classes = append(classes, cs.Class)
	}
	o := offs
	consumed := 0
	nonerr := false
	for j, c := range sched {
		view := buf[:c:c]
		last := j == len(sched)-1
		o2, e := st.Step(view, o, last)
		_ = e.Error() // the error text of every returned verdict must be available
		_ = e.ErrorConv()
		if o2 < 0 || o2 > len(view) {
			return viol("%s: call %d on %d bytes from offset %d returned offset %d outside the buffer (verdict %v)\nbuf=%s",
				cs.Cfg.Kind, j, len(view), o, o2, e, B(view)).with(true, classes...)
		}
		isErr := !(st.Success(e) || e == sipsp.ErrHdrMoreBytes)
		if !isErr && o2 < o {
			return viol("%s: call %d on %d bytes from offset %d returned offset %d before the offset passed in (verdict %v)\nbuf=%s",
				cs.Cfg.Kind, j, len(view), o, o2, e, B(view)).with(true, classes...)
		}
		if r := st.Deref(len(view)); r != "" {
			return viol("%s: after call %d (verdict %v, offset %d) on %d bytes: field %s\nbuf=%s",
				cs.Cfg.Kind, j, e, o2, len(view), r, B(view)).with(true, classes...)
		}
		if o2 > o {
			consumed += o2 - o
		}
		if e != sipsp.ErrHdrMoreBytes {
			nonerr = nonerr || !isErr
			// a snapshot exercises every accessor and String method
			_ = st.Snap(view, offs, e)
			if st.msg != nil && st.Success(e) {
				// (signature of a parsed message: Buf is only set on completion)
				sig, se := sipsp.GetMsgSig(st.msg)
				_ = sig.String()
				_ = se.Error()
				if sig.HdrSigLen < 0 || sig.HdrSigLen > len(sig.HdrSig) {
					return viol("GetMsgSig: HdrSigLen %d out of range", sig.HdrSigLen)
				}
				_ = st.msg.Method().String()
			}
			break
		}
		nonerr = true
		o = o2
	}
	return ok(consumed >= 8 || nonerr, classes...)
}

func genSaneCase(t *rapid.T) CaseSane {
	kind := pick(t, "kind", allKinds...)
	cfg := genCfg(t, kind)
	if kind == KTokParam || kind == KURIParams || kind == KURIHdrs {
		if rapid.IntRange(0, 2).Draw(t, "anyflags") == 0 {
			cfg.Flags = uint(rapid.IntRange(0, 255).Draw(t, "flags"))
		}
	}
	if kind == KMsg {
		cfg.Flags = uint(rapid.IntRange(0, 7).Draw(t, "mflags"))
	}
	if kind == KNameAddr && rapid.IntRange(0, 4).Draw(t, "anyhtype") == 0 {
		cfg.HType = rapid.IntRange(0, 20).Draw(t, "htype")
	}
	cs := CaseSane{Cfg: cfg}
	switch weighted(t, "input_class", 35, 40, 25) {
	case 0:
		if kind == KMsg {
			cs.Buf = genMsgSpec(t, 8, true).Render()
		} else {
			cs.Buf = genFragGrammar(t, cfg)
		}
		cs.Class = "in:grammar"
	case 1:
		if kind == KMsg {
			cs.Buf = mutate(t, genMsgSpec(t, 8, true).Render(), 6)
		} else {
			cs.Buf = mutate(t, genFragGrammar(t, cfg), 6)
		}
		cs.Class = "in:mutated"
	default:
		cs.Buf = genRaw(t, 120)
		cs.Class = "in:raw"
	}
	n := len(cs.Buf)
	switch weighted(t, "offs_k", 5, 2, 1, 1) {
	case 0:
		cs.Offs = 0
	case 1:
		cs.Offs = rapid.IntRange(0, n).Draw(t, "offs")
	case 2:
		cs.Offs = n
	default:
		if n > 0 {
			cs.Offs = n - 1
		}
	}
	if rapid.IntRange(0, 2).Draw(t, "chunked") == 0 {
		rel := genSchedule(t, n-cs.Offs, nil)
		for _, c := range rel {
			cs.Sched = append(cs.Sched, cs.Offs+c)
		}
	}
	cs.ZeroOb = rapid.IntRange(0, 7).Draw(t, "zero") == 0
	return cs
}

var C04Sane = Register(&Check[CaseSane]{Prop: "C04", Name: "C04.stream", Gen: genSaneCase, Eval: evalSane})

// C04Scope: the offset/deref rules on every enumerated string, at start offsets 0 and 1.
var C04Scope = Register(&Check[CaseAllCuts]{
	Prop: "C04", Name: "C04.scope",
	Eval: func(cs CaseAllCuts) Result {
		n := len(cs.Buf)
		every := make([]int, 0, n)
		for c := 1; c <= n; c++ {
			every = append(every, c)
		}
		r := evalSane(CaseSane{Cfg: cs.Cfg, Buf: cs.Buf, Offs: 0})
		if r.Viol {
			return r
		}
		r2 := evalSane(CaseSane{Cfg: cs.Cfg, Buf: cs.Buf, Offs: 0, Sched: every})
		if r2.Viol {
			return r2
		}
		if n > 0 {
			if r3 := evalSane(CaseSane{Cfg: cs.Cfg, Buf: cs.Buf, Offs: 1}); r3.Viol {
				return r3
			}
		}
		return ok(r.NonTriv || r2.NonTriv, "kind:"+cs.Cfg.Kind)
	},
})

// ---------- one-shot API functions on arbitrary bytes ----------

// CaseAPI: two byte strings, flags and numbers for the non-streaming functions.
type CaseAPI struct {
	A     B    `json:"a"`
	Bb    B    `json:"b"`
	Flags uint `json:"flags"`
	N1    int  `json:"n1"`
	N2    int  `json:"n2"`
}

func evalAPI(cs CaseAPI) Result {
	a, b := []byte(cs.A), []byte(cs.Bb)
	fl := sipsp.URICmpFlags(cs.Flags)
	nonerr := false
	// URIs
	var u1, u2 sipsp.PsipURI
	e1, p1 := sipsp.ParseURI(a, &u1)
	_ = e1.Error()
	if p1 < 0 || p1 > len(a) {
		return viol("ParseURI(%s) position %d outside the input", cs.A, p1)
	}
	if r := derefAll(&u1, len(a)); r != "" && e1 == 0 {
		return viol("ParseURI(%s) accepted: %s", cs.A, r)
	}
	e2, p2 := sipsp.ParseURI(b, &u2)
	if p2 < 0 || p2 > len(b) {
		return viol("ParseURI(%s) position %d outside the input", cs.Bb, p2)
	}
	if e1 == 0 {
		nonerr = true
		_ = u1.Flat(a)
		_ = u1.Long()
		_ = u1.Short()
		_ = u1.URIType.String()
		// relocation with an arbitrary span
		uc := u1
		np := sipsp.PField{Offs: sipsp.OffsT(cs.N1), Len: sipsp.OffsT(cs.N2)}
		if int(np.Offs)+int(np.Len) <= 65535 {
			if uc.AdjustOffs(np) {
				if r := derefAll(&uc, int(np.Offs)+int(np.Len)); r != "" {
					return viol("AdjustOffs(%v) of %s returned true but %s", np, cs.A, r)
				}
			}
		}
		// spans just below / at / above the URI length, at offset 0 and at an arbitrary offset
		for _, off := range []int{0, cs.N1 % 60000} {
			for d := -3; d <= 1; d++ {
				l := len(a) + d
				if l < 0 || off+l > 65535 {
					continue
				}
				uc = u1
				if uc.AdjustOffs(sipsp.PField{Offs: sipsp.OffsT(off), Len: sipsp.OffsT(l)}) {
					if r := derefAll(&uc, off+l); r != "" {
						return viol("AdjustOffs({%d,%d}) of %s returned true but %s", off, l, cs.A, r)
					}
				}
			}
		}
		uc = u1
		uc.Truncate()
	}
	if e1 == 0 && e2 == 0 {
		_ = sipsp.URICmp(&u1, a, &u2, b, fl)
		_ = sipsp.URICmpShort(&u1, a, &u2, b, fl)
	}
	var r1, r2 sipsp.PsipURI
	_, ee, which := sipsp.URIParseCmp(a, b, fl, &r1, &r2)
	_ = ee.Error()
	if which != 0 && which != 1 {
		return viol("URIParseCmp: failing URI index %d", which)
	}
	_, ee, _ = sipsp.URIRawCmp(a, b, fl)
	_ = ee.Error()
	_, eh := sipsp.URIParamsEq(a, clampOffs(cs.N1, len(a)), b, clampOffs(cs.N2, len(b)))
	_ = eh.Error()
	_, eh = sipsp.URIHdrsEq(a, clampOffs(cs.N1, len(a)), b, clampOffs(cs.N2, len(b)))
	_ = eh.Error()
	_ = sipsp.URIParamResolve(a)
	// list comparison on caller-supplied arrays of any capacity (incl. smaller than the lists)
	for _, caps := range [][2]int{{cs.N1 % 4, cs.N2 % 4}, {cs.N2 % 3, 8}, {8, cs.N1 % 3}} {
		var p1, p2 sipsp.URIParamsLst
		p1.Init(make([]sipsp.URIParam, caps[0]))
		p2.Init(make([]sipsp.URIParam, caps[1]))
		_, _, ea := sipsp.ParseAllURIParams(a, 0, &p1, sipsp.POptTokURIParamF|sipsp.POptInputEndF)
		_, _, eb := sipsp.ParseAllURIParams(b, 0, &p2, sipsp.POptTokURIParamF|sipsp.POptInputEndF)
		if (ea == 0 || ea == sipsp.ErrHdrEOH) && (eb == 0 || eb == sipsp.ErrHdrEOH) {
			sipsp.URIParamsLstEq(&p1, a, &p2, b)
			sipsp.URIParamsLstEq(&p2, b, &p1, a)
			sipsp.URIParamsLstEq(&p1, a, &p1, a)
		}
		var h1, h2 sipsp.URIHdrsLst
		h1.Init(make([]sipsp.URIHdr, caps[0]))
		h2.Init(make([]sipsp.URIHdr, caps[1]))
		_, _, ea = sipsp.ParseAllURIHdrs(a, 0, &h1, sipsp.POptTokURIHdrF|sipsp.POptInputEndF)
		_, _, eb = sipsp.ParseAllURIHdrs(b, 0, &h2, sipsp.POptTokURIHdrF|sipsp.POptInputEndF)
		if (ea == 0 || ea == sipsp.ErrHdrEOH) && (eb == 0 || eb == sipsp.ErrHdrEOH) {
			sipsp.URIHdrsLstEq(&h1, a, &h2, b)
			sipsp.URIHdrsLstEq(&h2, b, &h1, a)
		}
	}
	// IP
	var d4 [4]byte
	var d16 [16]byte
	okk, o, eh := sipsp.IP4Prefix(a, d4[:])
	_ = eh.Error()
	if o < 0 || o > len(a) {
		return viol("IP4Prefix(%s) stop offset %d outside the input", cs.A, o)
	}
	nonerr = nonerr || okk
	okk, st, ln := sipsp.ContainsIP4(a, d4[:])
	if okk && (st < 0 || ln < 0 || st+ln > len(a)) {
		return viol("ContainsIP4(%s) span (%d,%d) outside the input", cs.A, st, ln)
	}
	okk, o, eh = sipsp.IP6Prefix(a, d16[:])
	_ = eh.Error()
	if o < 0 || o > len(a) {
		return viol("IP6Prefix(%s) stop offset %d outside the input", cs.A, o)
	}
	okk, st, ln = sipsp.ContainsIP6(a, d16[:])
	if okk && (st < 0 || ln < 0 || st+ln > len(a)) {
		return viol("ContainsIP6(%s) span (%d,%d) outside the input", cs.A, st, ln)
	}
	sipsp.IP4Prefix(a, nil)
	sipsp.IP6Prefix(a, nil)
	sipsp.ContainsIP4(b, nil)
	sipsp.ContainsIP6(b, nil)
	sipsp.IP6Prefix(b, d4[:])
	// signatures and lookups
	sipsp.GetCallIDSig(a)
	sipsp.GetViaBrSig(a)
	sipsp.GetCallIDSig(b)
	sipsp.GetViaBrSig(b)
	ht := sipsp.GetHdrType(a)
	_ = ht.String()
	mn := sipsp.GetMethodNo(a)
	_ = mn.String()
	_ = sipsp.SIPMethod(cs.N1).Name()
	_ = sipsp.HdrT(cs.N1).String()
	_ = sipsp.URIScheme(int8(cs.N1)).String()
	for t := 0; t <= int(sipsp.HdrOther); t++ {
		sipsp.GetHdrSigId(sipsp.Hdr{Type: sipsp.HdrT(t), Name: sipsp.PField{Offs: 0, Len: sipsp.OffsT(cs.N2 % 3)}})
	}
	var ms sipsp.MsgSig
	ms.Method = sipsp.SIPMethod(cs.N1 % 16)
	ms.HdrSigLen = cs.N2 % 9
	if ms.HdrSigLen < 0 {
		ms.HdrSigLen = 0
	}
	for i := range ms.HdrSig {
		if i < len(a) {
			ms.HdrSig[i] = sipsp.HdrSigId(a[i] % 16)
		}
	}
	_ = ms.String()
	return ok(nonerr || len(a) >= 8)
}

func clampOffs(n, l int) int {
	if n < 0 {
		n = -n
	}
	if l == 0 {
		return 0
	}
	return n % (l + 1)
}

func genAPIString(t *rapid.T, label string) B {
	switch weighted(t, label+"_k", 8, 4, 4, 4, 2, 6, 2, 3) {
	case 7: // a list / URI that ends inside an item: the call suspends or fails half-way (whatever state it built must not outlive it)
		base := pick(t, label+"_ib", "", "a=1;", "transport=udp;", "sip:bob@example.org;", "sip:h?", "sip:h;lr?a=1&", "x=1&")
		return B(base + pick(t, label+"_ie", "x=\"abc", "x=\"", "x=\"a\\", "maddr=", "ttl", "x =", "x= \"q;r", "h=\"v"))
	case 5: // a well-formed ';' list with distinct names (reaches the comparison loops)
		var w []byte
		n := rapid.IntRange(1, 6).Draw(t, label+"_np")
		for i := 0; i < n; i++ {
			if i > 0 {
				w = append(w, ';')
			}
			w = append(w, pick(t, label+"_pn", "transport", "user", "ttl", "maddr", "lr", "method", "a", "b", "c", "dd", "x1")...)
			if rapid.Bool().Draw(t, label+"_pe") {
				w = append(w, '=')
				w = append(w, genFrom(t, label+"_pv", "abc123", 0, 4)...)
			}
		}
		return w
	case 6: // more parameters than the 100-element internal arrays
		var w []byte
		w = append(w, "sip:h"...)
		n := rapid.IntRange(99, 104).Draw(t, label+"_many")
		for i := 0; i < n; i++ {
			w = append(w, fmt.Sprintf(";p%d=%d", i+rapid.IntRange(0, 1).Draw(t, label+"_sh"), i)...)
		}
		return w
	case 0:
		return mutate(t, genURIFull(t), 2)
	case 1:
		return genFrom(t, label+"_ip", "0123456789.:[]abcdefx", 0, 48)
	case 2:
		return genTokList(t, genTokFlags(t)).Render()
	case 3:
		return genFrom(t, label+"_sip", sipAlphabet, 0, 40)
	default:
		return rapid.SliceOfN(rapid.Byte(), 0, 40).Draw(t, label+"_raw")
	}
}

var C04API = Register(&Check[CaseAPI]{
	Prop: "C04", Name: "C04.api",
	Gen: func(t *rapid.T) CaseAPI {
		return CaseAPI{A: genAPIString(t, "a"), Bb: genAPIString(t, "b"),
			Flags: uint(rapid.IntRange(0, 255).Draw(t, "flags")),
			N1:    rapid.IntRange(0, 70000).Draw(t, "n1"), N2: rapid.IntRange(0, 70000).Draw(t, "n2")}
	},
	Eval: evalAPI,
})

// ---------- IPv6 small-scope enumeration ----------

type CaseText struct {
	S B `json:"s"`
}

var C04IP6 = Register(&Check[CaseText]{
	Prop: "C04", Name: "C04.ip6",
	Eval: func(cs CaseText) Result {
		var d [16]byte
		okk, o, e := sipsp.IP6Prefix(cs.S, d[:])
		_ = e.Error()
		if o < 0 || o > len(cs.S) {
			return viol("IP6Prefix(%s) stop offset %d outside the input", cs.S, o)
		}
		f, st, ln := sipsp.ContainsIP6(cs.S, d[:])
		if f && (st < 0 || ln < 0 || st+ln > len(cs.S)) {
			return viol("ContainsIP6(%s) span (%d,%d) outside the input", cs.S, st, ln)
		}
		sipsp.GetCallIDSig(cs.S)
		return ok(okk || f || len(cs.S) >= 8)
	},
})

// ---------- isolation ----------

// CaseIso: several independent streams, executed solo, interleaved and concurrently.
type CaseIso struct {
	Streams []CaseResume `json:"streams"`
	Order   []int        `json:"order"` // interleaving: which stream advances next
	Conc    bool         `json:"conc"`  // also run all streams concurrently
}

type streamTrace struct {
	steps []string
	final string
}

type streamRun struct {
	cs    CaseResume
	full  []byte
	start int
	sched []int
	st    *Stepper
	o     int
	j     int
	done  bool
	tr    streamTrace
}

func newStreamRun(cs CaseResume) *streamRun {
	r := &streamRun{cs: cs}
	r.start = len(cs.Pre)
	r.full = append(append([]byte{}, cs.Pre...), cs.Buf...)
	r.sched = normSchedule(cs.Sched, len(cs.Buf))
	r.st = NewStepper(cs.Cfg)
	r.o = r.start
	return r
}

func (r *streamRun) step() {
	if r.done {
		return
	}
	c := r.sched[r.j]
	view := r.full[: r.start+c : r.start+c]
	last := r.j == len(r.sched)-1
	o2, e := r.st.Step(view, r.o, last)
	r.tr.steps = append(r.tr.steps, fmt.Sprintf("(%d,%d)", o2, e))
	if e != sipsp.ErrHdrMoreBytes || last {
		r.tr.final = r.st.Snap(view, r.start, e)
		r.done = true
		return
	}
	r.o = o2
	r.j++
}

func (r *streamRun) runAll() {
	for !r.done {
		r.step()
	}
}

func traceEq(a, b streamTrace) string {
	if len(a.steps) != len(b.steps) {
		return fmt.Sprintf("step count %d vs %d", len(a.steps), len(b.steps))
	}
	for i := range a.steps {
		if a.steps[i] != b.steps[i] {
			return fmt.Sprintf("step %d returned %s vs %s solo", i, a.steps[i], b.steps[i])
		}
	}
	if a.final != b.final {
		return "final values differ:\n" + diffSnap(a.final, b.final)
	}
	return ""
}

func evalIso(cs CaseIso) Result {
	if len(cs.Streams) < 2 {
		return Result{Skip: true}
	}
	solo := make([]streamTrace, len(cs.Streams))
	for i, s := range cs.Streams {
		r := newStreamRun(s)
		r.runAll()
		solo[i] = r.tr
	}
	// interleaved
	runs := make([]*streamRun, len(cs.Streams))
	for i, s := range cs.Streams {
		runs[i] = newStreamRun(s)
	}
	for _, k := range cs.Order {
		if k >= 0 && k < len(runs) {
			runs[k].step()
		}
	}
	for _, r := range runs {
		r.runAll()
	}
	for i, r := range runs {
		if m := traceEq(r.tr, solo[i]); m != "" {
			return viol("stream %d (%s) interleaved with %d other parses: %s\ninput=%s", i, r.cs.Cfg.Kind, len(runs)-1, m, r.cs.Buf)
		}
	}
	if cs.Conc {
		cruns := make([]*streamRun, len(cs.Streams))
		var wg sync.WaitGroup
		for i, s := range cs.Streams {
			cruns[i] = newStreamRun(s)
			wg.Add(1)
			go func(r *streamRun) {
				defer wg.Done()
				for rep := 0; rep < 3; rep++ {
					rr := newStreamRun(r.cs)
					rr.runAll()
					if rep == 2 {
						r.tr = rr.tr
					}
				}
			}(cruns[i])
		}
		wg.Wait()
		for i, r := range cruns {
			if m := traceEq(r.tr, solo[i]); m != "" {
				return viol("stream %d (%s) run concurrently with %d other parses: %s\ninput=%s", i, r.cs.Cfg.Kind, len(cruns)-1, m, r.cs.Buf)
			}
		}
	}
	return ok(true, fmt.Sprintf("streams:%d", len(cs.Streams)))
}

var C04Iso = Register(&Check[CaseIso]{
	Prop: "C04", Name: "C04.iso",
	Gen: func(t *rapid.T) CaseIso {
		var cs CaseIso
		n := rapid.IntRange(2, 5).Draw(t, "nstreams")
		total := 0
		for i := 0; i < n; i++ {
			s := genResumeCase(t, pick(t, "kind", allKinds...))
			if rapid.IntRange(0, 2).Draw(t, "sameinput") == 0 && i > 0 {
				// same bytes, other configuration: the most likely victim of shared scratch state
				s.Buf = cs.Streams[0].Buf
				s.Cfg = cs.Streams[0].Cfg
				s.Pre = cs.Streams[0].Pre
				s.Sched = genSchedule(t, len(s.Buf), hotPositions(s.Buf))
			}
			cs.Streams = append(cs.Streams, s)
			total += len(s.Sched)
		}
		k := rapid.IntRange(0, total+2).Draw(t, "norder")
		for i := 0; i < k; i++ {
			cs.Order = append(cs.Order, rapid.IntRange(0, n-1).Draw(t, "ord"))
		}
		cs.Conc = true
		return cs
	},
	Eval: evalIso,
})

// C04IsoAPI: the one-shot compare/lookup/signature functions run concurrently
// on distinct inputs must give their solo results.
type CaseIsoAPI struct {
	Inputs []B `json:"inputs"`
}

func apiDigest(a []byte) string {
	var u sipsp.PsipURI
	e, p := sipsp.ParseURI(a, &u)
	eq, ee, w := sipsp.URIRawCmp(a, a, 0)
	pe, pee := sipsp.URIParamsEq(a, 0, a, 0)
	he, hee := sipsp.URIHdrsEq(a, 0, a, 0)
	var d4 [4]byte
	f4, s4, l4 := sipsp.ContainsIP4(a, d4[:])
	var d6 [16]byte
	f6, s6, l6 := sipsp.ContainsIP6(a, d6[:])
	cs, cl := sipsp.GetCallIDSig(a)
	vs, vl := sipsp.GetViaBrSig(a)
	return fmt.Sprint(e, p, u, eq, ee, w, pe, pee, he, hee, f4, s4, l4, d4, f6, s6, l6, d6, cs, cl, vs, vl,
		sipsp.GetHdrType(a), sipsp.GetMethodNo(a))
}

var C04IsoAPI = Register(&Check[CaseIsoAPI]{
	Prop: "C04", Name: "C04.isoapi",
	Gen: func(t *rapid.T) CaseIsoAPI {
		var cs CaseIsoAPI
		n := rapid.IntRange(2, 6).Draw(t, "n")
		for i := 0; i < n; i++ {
			cs.Inputs = append(cs.Inputs, genAPIString(t, "in"))
		}
		return cs
	},
	Eval: func(cs CaseIsoAPI) Result {
		solo := make([]string, len(cs.Inputs))
		for i, in := range cs.Inputs {
			solo[i] = apiDigest(in)
		}
		got := make([]string, len(cs.Inputs))
		var wg sync.WaitGroup
		for i, in := range cs.Inputs {
			wg.Add(1)
			go func(i int, in []byte) {
				defer wg.Done()
				for rep := 0; rep < 3; rep++ {
					got[i] = apiDigest(in)
				}
			}(i, in)
		}
		wg.Wait()
		for i := range solo {
			if solo[i] != got[i] {
				return viol("input %d (%s): results differ when run concurrently with %d other calls:\n solo %s\n conc %s", i, cs.Inputs[i], len(solo)-1, solo[i], got[i])
			}
		}
		// interleaved, not concurrent: the same calls again one after the other in the opposite order - a call must
		// not depend on which other calls (on other inputs) came before it
		for i := len(cs.Inputs) - 1; i >= 0; i-- {
			if again := apiDigest(cs.Inputs[i]); again != solo[i] {
				return viol("input %d (%s): the result depends on the calls made before it (same call, other history):\n first  %s\n second %s", i, cs.Inputs[i], solo[i], again)
			}
		}
		return ok(len(cs.Inputs) >= 2)
	},
})

// C04Lookup: both lookups return (no panic) for every name.
var C04Lookup = Register(&Check[CaseName]{
	Prop: "C04", Name: "C04.lookup",
	Eval: func(c CaseName) Result {
		_ = sipsp.GetHdrType(c.Name).String()
		_ = sipsp.GetMethodNo(c.Name).String()
		return ok(len(c.Name) == 0 || c16NonTrivHdr(c.Name) || c16NonTrivMth(c.Name))
	},
})
