package props

import "testing"

func TestC01Rapid(t *testing.T) { C01Msg.RunRapid(t) }
func TestC02Rapid(t *testing.T) { C02Sub.RunRapid(t) }

func TestC02Scope(t *testing.T) { runScopes(t, C02Scope, scopes(envInt("VERIF_DEPTH", 0))) }
func TestC01Scope(t *testing.T) { runScopes(t, C01Scope, msgScopes(envInt("VERIF_DEPTH", 0))) }

// TestC01Corpus: every single cut and the every-byte schedule over a fixed corpus,
// under several flag/capacity configurations (exhaustive over cuts for that corpus).
func TestC01Corpus(t *testing.T) {
	cfgs := []Cfg{
		withFlags(withCaps(scopeCfg(KMsg), -1, -1, -1), 0, false),
		withFlags(withCaps(scopeCfg(KMsg), -1, -1, -1), 1, false),
		withFlags(withCaps(scopeCfg(KMsg), 3, 1, -1), 2, false),
		withFlags(withCaps(scopeCfg(KMsg), 0, 0, -1), 3, true),
		withFlags(withCaps(scopeCfg(KMsg), 40, 20, -1), 0, true),
	}
	var jobs []func(emit func(CaseAllCuts) bool)
	for _, m := range corpusMsgs() {
		for _, c := range cfgs {
			m, c := m, c
			jobs = append(jobs, func(emit func(CaseAllCuts) bool) { emit(CaseAllCuts{Cfg: c, Buf: m}) })
			jobs = append(jobs, func(emit func(CaseAllCuts) bool) { emit(CaseAllCuts{Cfg: c, Pre: B("\r\n\"x"), Buf: m}) })
		}
	}
	C01Corpus.RunJobs(t, []string{"19 corpus messages x 5 configurations x 2 start offsets: every-byte, every single cut, steps 2/3/5"}, jobs)
}

// TestC01Large: inputs of 65,534 / 65,535 / 30,000 bytes under a sparse schedule and as a single cut.
func TestC01Large(t *testing.T) {
	var jobs []func(emit func(CaseResume) bool)
	for _, total := range []int{65535, 65534, 30000} {
		for _, m := range largeMsgs(total) {
			m := m
			for _, cfg := range []Cfg{withCaps(scopeCfg(KMsg), -1, -1, -1), withFlags(withCaps(scopeCfg(KMsg), 700, 700, -1), 1, false), withFlags(withCaps(scopeCfg(KMsg), 3, 0, -1), 0, true)} {
				cfg := cfg
				jobs = append(jobs, func(emit func(CaseResume) bool) {
					emit(CaseResume{Cfg: cfg, Buf: m, Sched: largeCuts(len(m)), Class: "in:large"})
					for _, c := range []int{len(m) / 2, len(m) - 1, 15} {
						emit(CaseResume{Cfg: cfg, Buf: m, Sched: []int{c, len(m)}, Fresh: true, Class: "in:large"})
					}
				})
			}
		}
	}
	C01Msg.RunJobs(t, nil, jobs)
}
