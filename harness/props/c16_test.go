package props

import (
	"fmt"
	"testing"
)

func TestC16HdrRapid(t *testing.T)   { C16Hdr.RunRapid(t) }
func TestC16MthRapid(t *testing.T)   { C16Mth.RunRapid(t) }
func TestC16ParseRapid(t *testing.T) { C16Parse.RunRapid(t) }

func TestC16Enum(t *testing.T) {
	maxLen := envInt("VERIF_C16_MAXLEN", 3)
	C16Hdr.RunCases(t, "all 2^len casings of the 19 header names", true, func(emit func(CaseName) bool) {
		enumCasings(hdrTableNames(), emit)
	})
	C16Mth.RunCases(t, "all 2^len casings of the 14 method names", true, func(emit func(CaseName) bool) {
		enumCasings(mthTableNames(), emit)
	})
	C16Hdr.RunCases(t, "all one-edit neighbours (256-byte alphabet) of the header names", true, func(emit func(CaseName) bool) {
		enumOneEdit(hdrTableNames(), emit)
	})
	C16Mth.RunCases(t, "all one-edit neighbours (256-byte alphabet) of the method names", true, func(emit func(CaseName) bool) {
		enumOneEdit(mthTableNames(), emit)
	})
	C16Hdr.RunCases(t, "every header name + every 4-byte suffix over {NUL,SP,-,A,a,e,E,0xff} and 8 equal bytes (same hash bucket)", true, func(emit func(CaseName) bool) {
		enumPadded(hdrTableNames(), emit)
	})
	C16Mth.RunCases(t, "every method name + every 4-byte suffix over {NUL,SP,-,A,a,e,E,0xff} and 8 equal bytes (same hash bucket)", true, func(emit func(CaseName) bool) {
		enumPadded(mthTableNames(), emit)
	})
	C16Hdr.RunShards(t, fmt.Sprintf("GetHdrType on all byte strings of length 0..%d", maxLen), maxLen >= 3, 64, func(s int, emit func(CaseName) bool) {
		enumShort(maxLen, s, 64, emit)
	})
	C16Mth.RunShards(t, fmt.Sprintf("GetMethodNo on all byte strings of length 0..%d", maxLen), maxLen >= 3, 64, func(s int, emit func(CaseName) bool) {
		enumShort(maxLen, s, 64, emit)
	})
	C16Hdr.RunShards(t, "all two-substitution neighbours (256 x 256 byte values) of every header table name", true, 32, func(s int, emit func(CaseName) bool) {
		enumTwoSub(hdrTableNames(), s, 32, emit)
	})
	C16Mth.RunShards(t, "all two-substitution neighbours (256 x 256 byte values) of every method name", true, 32, func(s int, emit func(CaseName) bool) {
		enumTwoSub(mthTableNames(), s, 32, emit)
	})
	C16Hdr.RunCases(t, "every header name + 255/256/257/512/768/1024 padding bytes", true, func(emit func(CaseName) bool) {
		enumLongPadded(hdrTableNames(), emit)
	})
	C16Mth.RunCases(t, "every method name + 255/256/257/512/768/1024 padding bytes", true, func(emit func(CaseName) bool) {
		enumLongPadded(mthTableNames(), emit)
	})
	C16Round.RunCases(t, "all 256 numeric methods: name and back", true, func(emit func(CaseMthNo) bool) {
		for m := 0; m < 256; m++ {
			if !emit(CaseMthNo{M: m}) {
				return
			}
		}
	})
	// parser classification for all casings of the table names
	C16Parse.RunCases(t, "ParseHdrLine type for all casings of the header names", true, func(emit func(CaseHdrLine) bool) {
		enumCasings(hdrTableNames(), func(c CaseName) bool {
			return emit(CaseHdrLine{Name: c.Name, WS: B(""), Tail: B("v")})
		})
	})
	C16Parse.RunCases(t, "ParseHdrLine type for every table name and one-edit neighbour x {no blank, SP, HT, SP HT SP before the colon} x line offsets {0, 1, 7, 23}", true, func(emit func(CaseHdrLine) bool) {
		names := hdrTableNames()
		for _, ws := range []string{"", " ", "\t", " \t "} {
			for _, pre := range []string{"", "\n", "x: y\r\n", "Via: SIP/2.0/UDP h\r\n"} {
				for _, n := range names {
					if !emit(CaseHdrLine{Name: B(n), WS: B(ws), Tail: B("v"), Pre: B(pre)}) {
						return
					}
					for _, e := range []string{n + "x", n[1:] + "q", "x" + n} {
						if !emit(CaseHdrLine{Name: B(e), WS: B(ws), Tail: B("v"), Pre: B(pre)}) {
							return
						}
					}
				}
			}
		}
	})
}
