package props

// scope.go: small-scope enumeration. For a parser kind, every string over a
// short delimiter alphabet up to a length bound is parsed at every prefix
// (one-shot) and under every chunk schedule (all 2^(n-1) schedules for short
// strings; every-byte + all two-step schedules for longer ones).

import (
	"fmt"

	"github.com/intuitivelabs/sipsp"
)

// CaseAllCuts: one input checked under all schedules of the scope.
type CaseAllCuts struct {
	Cfg Cfg `json:"cfg"`
	Pre B   `json:"pre"`
	Buf B   `json:"buf"`
}

type prefixVerdict struct {
	o    int
	e    sipsp.ErrorHdr
	st   *Stepper
	snap string
	has  bool
}

// prefixVerdicts computes the one-shot result for every prefix length 0..len(buf).
func prefixVerdicts(cfg Cfg, full []byte, start int) []prefixVerdict {
	n := len(full) - start
	v := make([]prefixVerdict, n+1)
	for i := 0; i <= n; i++ {
		view := full[: start+i : start+i]
		st, o, e := oneShot(cfg, view, start, i == n)
		v[i] = prefixVerdict{o: o, e: e, st: st}
	}
	return v
}

func (p *prefixVerdict) snapshot(full []byte, start, n int) string {
	if !p.has {
		p.snap = p.st.Snap(full[:start+n:start+n], start, p.e)
		p.has = true
	}
	return p.snap
}

// runSchedule runs one resumed parse and compares every step with the one-shot table.
func runSchedule(cfg Cfg, full []byte, start int, sched []int, V []prefixVerdict) (string, int) {
	st := NewStepper(cfg)
	o := start
	n := len(full) - start
	susp := 0
	for j, c := range sched {
		view := full[: start+c : start+c]
		o2, e2 := st.Step(view, o, c == n)
		if o2 != V[c].o || e2 != V[c].e {
			return fmt.Sprintf("schedule %v step %d (prefix %d): resumed (%d, %v) != one-shot (%d, %v)",
				sched, j, c, o2-start, e2, V[c].o-start, V[c].e), susp
		}
		if e2 != sipsp.ErrHdrMoreBytes {
			if susp > 0 {
				a := st.Snap(view, start, e2)
				b := V[c].snapshot(full, start, c)
				if a != b {
					return fmt.Sprintf("schedule %v: verdict (%d, %v): values differ from one-shot\n%s", sched[:j+1], o2-start, e2, diffSnap(a, b)), susp
				}
			}
			return "", susp
		}
		susp++
		o = o2
	}
	return "", susp
}

func evalAllCuts(cs CaseAllCuts) Result {
	start := len(cs.Pre)
	full := append(append([]byte{}, cs.Pre...), cs.Buf...)
	n := len(cs.Buf)
	V := prefixVerdicts(cs.Cfg, full, start)
	nontriv := false
	check := func(sched []int) string {
		msg, susp := runSchedule(cs.Cfg, full, start, sched, V)
		if susp > 0 && msg == "" {
			nontriv = true
		}
		return msg
	}
	if n <= 6 && n >= 1 {
		// all 2^(n-1) schedules
		for mask := 0; mask < 1<<uint(n-1); mask++ {
			var sched []int
			for c := 1; c < n; c++ {
				if mask&(1<<uint(c-1)) != 0 {
					sched = append(sched, c)
				}
			}
			sched = append(sched, n)
			if m := check(sched); m != "" {
				return viol("%s: %s\ninput=%s", cs.Cfg.Kind, m, cs.Buf)
			}
		}
		// plus an initial call on the empty text
		if m := check([]int{0, n}); m != "" {
			return viol("%s: %s\ninput=%s", cs.Cfg.Kind, m, cs.Buf)
		}
	} else {
		every := make([]int, 0, n)
		for c := 1; c <= n; c++ {
			every = append(every, c)
		}
		if n == 0 {
			every = []int{0}
		}
		if m := check(every); m != "" {
			return viol("%s: %s\ninput=%s", cs.Cfg.Kind, m, cs.Buf)
		}
		for c := 0; c < n; c++ {
			if m := check([]int{c, n}); m != "" {
				return viol("%s: %s\ninput=%s", cs.Cfg.Kind, m, cs.Buf)
			}
		}
		for _, step := range []int{2, 3, 5} {
			var sched []int
			for c := step; c < n; c += step {
				sched = append(sched, c)
			}
			sched = append(sched, n)
			if m := check(sched); m != "" {
				return viol("%s: %s\ninput=%s", cs.Cfg.Kind, m, cs.Buf)
			}
		}
	}
	definitive := V[n].e != sipsp.ErrHdrMoreBytes
	return ok(nontriv && definitive, "kind:"+cs.Cfg.Kind)
}

// Scope describes one enumerated sub-space.
type Scope struct {
	Cfg      Cfg
	Prefix   string // fixed text before the enumerated part
	Suffix   string // fixed text after it
	Alphabet []string
	MaxLen   int // bound on the number of symbols
}

func (s Scope) Desc() string {
	return fmt.Sprintf("%s flags=%#x caps=%d/%d/%d end=%v: all strings of <= %d symbols over %q behind %q before %q (%d strings)",
		s.Cfg.Kind, s.Cfg.Flags, s.Cfg.HdrCap, s.Cfg.CtCap, s.Cfg.PCap, s.Cfg.EndLast, s.MaxLen, s.Alphabet, s.Prefix, s.Suffix, s.Count())
}

func (s Scope) Count() int {
	total, p := 1, 1
	for l := 1; l <= s.MaxLen; l++ {
		p *= len(s.Alphabet)
		total += p
	}
	return total
}

// NShards: strings are split by their first two symbols.
func (s Scope) NShards() int { return len(s.Alphabet)*len(s.Alphabet) + len(s.Alphabet) + 1 }

// Produce enumerates the strings of one shard.
func (s Scope) Produce(shard int, emit func([]byte) bool) {
	k := len(s.Alphabet)
	build := func(idx []int) []byte {
		b := []byte(s.Prefix)
		for _, i := range idx {
			b = append(b, s.Alphabet[i]...)
		}
		return append(b, s.Suffix...)
	}
	if shard == 0 {
		emit(build(nil))
		return
	}
	if shard <= k {
		if s.MaxLen >= 1 {
			emit(build([]int{shard - 1}))
		}
		return
	}
	if s.MaxLen < 2 {
		return
	}
	x := shard - k - 1
	first, second := x/k, x%k
	idx := []int{first, second}
	var rec func(depth int) bool
	rec = func(depth int) bool {
		if !emit(build(idx)) {
			return false
		}
		if depth == s.MaxLen {
			return true
		}
		for i := 0; i < k; i++ {
			idx = append(idx, i)
			if !rec(depth + 1) {
				return false
			}
			idx = idx[:len(idx)-1]
		}
		return true
	}
	rec(2)
}

func scopeCfg(kind string) Cfg { return Cfg{Kind: kind, HdrCap: -1, CtCap: -1, PCap: -1} }

func withCaps(c Cfg, h, ct, p int) Cfg { c.HdrCap, c.CtCap, c.PCap = h, ct, p; return c }

func withFlags(c Cfg, f uint, end bool) Cfg { c.Flags, c.EndLast = f, end; return c }

func withHType(c Cfg, h sipsp.HdrT) Cfg { c.HType = int(h); return c }

// scopes returns the enumerated sub-spaces; depth adds symbols to every bound.
func scopes(depth int) []Scope {
	tokA := []string{"a", "=", ";", ",", " ", "\r\n", "\"", "\\", "?", "&", "\n"}
	naA := []string{"a", "<", ">", "\"", "\\", ";", "=", ",", " ", "\r\n", "*", "q", "1", "."}
	hbA := []string{"a", "f", "m", "l", ":", "1", " ", "\r", "\n", ",", "<"}
	numA := []string{"1", "0", "a", " ", "\t", "\r", "\n"}
	flA := []string{"S", "I", "P", "/", "2", ".", "0", "1", "a", " ", "\t", "\r", "\n"}
	semi := uint(sipsp.POptParamSemiSepF)
	var s []Scope
	// token params under several flag sets
	for _, f := range []uint{semi, semi | uint(sipsp.POptTokCommaTermF), semi | uint(sipsp.POptTokSpTermF),
		uint(sipsp.POptTokURIParamF), uint(sipsp.POptTokURIHdrF | sipsp.POptParamAmpSepF)} {
		s = append(s, Scope{Cfg: withFlags(scopeCfg(KTokParam), f, false), Alphabet: tokA, MaxLen: 4 + depth})
		s = append(s, Scope{Cfg: withFlags(scopeCfg(KTokParam), f, true), Alphabet: tokA, MaxLen: 4 + depth})
	}
	s = append(s, Scope{Cfg: withFlags(scopeCfg(KTokParam), semi|uint(sipsp.POptTokSpTermF), false), Prefix: "a=", Alphabet: tokA, MaxLen: 4 + depth})
	for _, cap := range []int{-1, 0, 1, 3} {
		s = append(s, Scope{Cfg: withCaps(withFlags(scopeCfg(KURIParams), uint(sipsp.POptTokURIParamF), true), -1, -1, cap), Alphabet: tokA, MaxLen: 4 + depth})
		s = append(s, Scope{Cfg: withCaps(withFlags(scopeCfg(KURIHdrs), uint(sipsp.POptTokURIHdrF), true), -1, -1, cap), Alphabet: tokA, MaxLen: 4 + depth})
	}
	s = append(s, Scope{Cfg: withCaps(withFlags(scopeCfg(KURIParams), 0, false), -1, -1, 1), Alphabet: tokA, MaxLen: 4 + depth})
	// name-addr values
	for _, h := range []sipsp.HdrT{sipsp.HdrFrom, sipsp.HdrContact} {
		s = append(s, Scope{Cfg: withHType(scopeCfg(KNameAddr), h), Alphabet: naA, MaxLen: 4 + depth})
		s = append(s, Scope{Cfg: withHType(scopeCfg(KNameAddr), h), Prefix: "<a>", Alphabet: naA, MaxLen: 4 + depth})
		s = append(s, Scope{Cfg: withHType(scopeCfg(KNameAddr), h), Prefix: "a;", Alphabet: naA, MaxLen: 3 + depth})
	}
	for _, cap := range []int{-1, 0, 1, 3} {
		s = append(s, Scope{Cfg: withCaps(scopeCfg(KContacts), -1, cap, -1), Prefix: "<a>", Alphabet: naA, MaxLen: 3 + depth})
	}
	s = append(s, Scope{Cfg: scopeCfg(KPAIs), Prefix: "<a>", Alphabet: naA, MaxLen: 3 + depth})
	s = append(s, Scope{Cfg: scopeCfg(KPAI1), Alphabet: naA, MaxLen: 3 + depth})
	s = append(s, Scope{Cfg: scopeCfg(KContact1), Alphabet: naA, MaxLen: 3 + depth})
	// header lines and blocks
	s = append(s, Scope{Cfg: scopeCfg(KHdrLine), Alphabet: hbA, MaxLen: 5 + depth})
	s = append(s, Scope{Cfg: scopeCfg(KHdrLinePV), Alphabet: hbA, MaxLen: 5 + depth})
	for _, cap := range []int{-1, 0, 2} {
		s = append(s, Scope{Cfg: withCaps(scopeCfg(KHeaders), cap, cap, -1), Alphabet: hbA, MaxLen: 5 + depth})
	}
	s = append(s, Scope{Cfg: withCaps(scopeCfg(KHeadersNil), 1, -1, -1), Alphabet: hbA, MaxLen: 5 + depth})
	// numbers, call-id, cseq
	for _, k := range []string{KCSeq, KUInt, KCLen, KExpires, KCallID} {
		s = append(s, Scope{Cfg: scopeCfg(k), Alphabet: numA, MaxLen: 6 + depth})
	}
	s = append(s, Scope{Cfg: scopeCfg(KCSeq), Prefix: "1 ", Alphabet: numA, MaxLen: 5 + depth})
	// first line
	s = append(s, Scope{Cfg: scopeCfg(KFLine), Alphabet: flA, MaxLen: 4 + depth, Suffix: "\r\nxxxxxxxxxxxx"})
	s = append(s, Scope{Cfg: scopeCfg(KFLine), Prefix: "SIP/2.0 ", Alphabet: flA, MaxLen: 5 + depth})
	s = append(s, Scope{Cfg: scopeCfg(KFLine), Prefix: "a a ", Alphabet: flA, MaxLen: 5 + depth, Suffix: "xxxxxxxx"})
	// quoted strings
	s = append(s, Scope{Cfg: scopeCfg(KSkipQuoted), Alphabet: []string{"a", "\"", "\\", " ", "\r", "\n", "\x7f", "\x01"}, MaxLen: 6 + depth})
	return s
}

// msgScopes: the message parser behind a fixed skeleton.
func msgScopes(depth int) []Scope {
	mA := []string{"a", ":", " ", "\r", "\n", "1", "l", "m", "<", ","}
	var s []Scope
	for _, f := range []uint{0, 1, 2, 3} {
		for _, end := range []bool{false, true} {
			c := withFlags(withCaps(scopeCfg(KMsg), -1, -1, -1), f, end)
			s = append(s, Scope{Cfg: c, Prefix: "INVITE sip:a SIP/2.0\r\n", Alphabet: mA, MaxLen: 4 + depth})
		}
	}
	s = append(s, Scope{Cfg: withCaps(scopeCfg(KMsg), 1, 0, -1), Prefix: "SIP/2.0 200 OK\r\nl:2\r\n", Alphabet: mA, MaxLen: 4 + depth})
	s = append(s, Scope{Cfg: withCaps(scopeCfg(KMsg), 0, 1, -1), Prefix: "A b c\nm:<a>", Alphabet: mA, MaxLen: 4 + depth})
	return s
}
