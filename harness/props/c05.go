package props

// C05: reported fields are contained, nested and ordered like the text they describe.

import (
	"bytes"
	"fmt"

	"github.com/intuitivelabs/sipsp"
	"pgregory.net/rapid"
)

// CaseContain: a message that is expected to parse (grammar, corpus or mutated-but-still-valid).
type CaseContain struct {
	Pre   B      `json:"pre"`
	Buf   B      `json:"buf"`
	Flags uint   `json:"flags"`
	Sched []int  `json:"sched"`
	Class string `json:"class,omitempty"`
	HCap  int    `json:"hcap"` // 0 = ample header array; > 0: this (possibly too small) capacity, -1: zero-length array
}

type span struct{ a, b int } // [a,b)

func sp(f sipsp.PField) span { return span{int(f.Offs), int(f.Offs) + int(f.Len)} }

func (s span) inside(o span) bool { return s.a >= o.a && s.b <= o.b }

func onlyBytes(b []byte, set string) bool {
	for _, c := range b {
		found := false
		for i := 0; i < len(set); i++ {
			if set[i] == c {
				found = true
				break
			}
		}
		if !found {
			return false
		}
	}
	return true
}

func nestFrom(what string, f *sipsp.PFromBody, within span) string {
	if !f.Parsed() {
		return ""
	}
	v := sp(f.V)
	if !v.inside(within) {
		return fmt.Sprintf("%s.V %v not inside its header value %v", what, v, within)
	}
	for _, x := range []struct {
		n string
		f sipsp.PField
	}{{"Name", f.Name}, {"URI", f.URI}, {"Params", f.Params}} {
		if !x.f.Empty() && !sp(x.f).inside(v) {
			return fmt.Sprintf("%s.%s %v not inside %s.V %v", what, x.n, sp(x.f), what, v)
		}
	}
	if !f.Tag.Empty() {
		if f.Params.Empty() || !sp(f.Tag).inside(sp(f.Params)) {
			return fmt.Sprintf("%s.Tag %v not inside %s.Params %v", what, sp(f.Tag), what, sp(f.Params))
		}
	}
	if !f.Name.Empty() && !f.URI.Empty() && sp(f.Name).b > sp(f.URI).a {
		return fmt.Sprintf("%s.Name %v overlaps or follows %s.URI %v", what, sp(f.Name), what, sp(f.URI))
	}
	if !f.Params.Empty() && !f.URI.Empty() && sp(f.URI).b > sp(f.Params).a {
		return fmt.Sprintf("%s.URI %v overlaps or follows %s.Params %v", what, sp(f.URI), what, sp(f.Params))
	}
	return ""
}

func evalContain(cs CaseContain) Result {
	start := len(cs.Pre)
	full := append(append([]byte{}, cs.Pre...), cs.Buf...)
	if len(full) > 65535 {
		return Result{Skip: true}
	}
	cfg := Cfg{Kind: KMsg, Flags: cs.Flags &^ uint(sipsp.SIPMsgNoMoreDataF), HdrCap: 80, CtCap: 40, PCap: -1}
	if cs.HCap > 0 {
		cfg.HdrCap = cs.HCap
	} else if cs.HCap < 0 {
		cfg.HdrCap = 0
	}
	st := NewStepper(cfg)
	sched := normSchedule(cs.Sched, len(cs.Buf))
	o := start
	var e sipsp.ErrorHdr
	var view []byte
	for j, c := range sched {
		view = full[: start+c : start+c]
		o, e = st.Step(view, o, j == len(sched)-1)
		if e != sipsp.ErrHdrMoreBytes {
			break
		}
	}
	classes := []string{}
	if cs.Class != "" {
		classes = append(classes, cs.Class)
	}
	if e != 0 {
		return ok(false, append(classes, "not-successful")...)
	}
	m := st.msg
	buf := view
	consumed := span{start, o}
	wellFormed := cs.Class == "in:grammar" || cs.Class == "in:grammar-many-headers" || cs.Class == "in:corpus"
	fail := func(format string, a ...interface{}) Result {
		return viol(format+"\nmsg=%s", append(a, B(buf[start:]))...).with(true, classes...)
	}
	// every reported field inside the consumed region
	if r := derefInside(m, consumed); r != "" {
		return fail("field outside the consumed region [%d,%d): %s", start, o, r)
	}
	hl := &m.HL
	if hl.N > len(hl.Hdrs) || hl.N == 0 {
		// not all headers are stored: the first-of-type shortcuts are the only view on the others;
		// each must describe one line: name, then (same line or folded) its own value
		for t := sipsp.HdrFrom; t < sipsp.HdrOther; t++ {
			h := hl.GetHdr(t)
			if h == nil || h.Missing() {
				continue
			}
			n := sp(h.Name)
			if h.Name.Empty() || !n.inside(consumed) {
				return fail("GetHdr(%v): name %v outside the message", t, n)
			}
			if refHdrType(h.Name.Get(buf)) != t {
				return fail("GetHdr(%v) holds the header %q", t, h.Name.Get(buf))
			}
			if h.Val.Empty() {
				continue
			}
			v := sp(h.Val)
			if v.a < n.b || !v.inside(consumed) {
				return fail("GetHdr(%v): value %v does not follow its name %v", t, v, n)
			}
			// between the name and the value: WS* ':' LWS*  (a value on another header's line would have a line end + name in between)
			gap := buf[n.b:v.a]
			colon := bytes.IndexByte(gap, ':')
			if colon < 0 || !onlyBytes(gap[:colon], " \t") || (wellFormed && !onlyBytes(gap[colon+1:], " \t\r\n")) {
				return fail("GetHdr(%v) (%q): the reported value %q is not the value of that header line (text in between: %q)", t, h.Name.Get(buf), h.Val.Get(buf), gap)
			}
		}
		return ok(hl.N >= 3, append(classes, "hdrs-do-not-fit")...)
	}
	// first line
	fl := &m.FL
	flEnd := int(hl.Hdrs[0].Name.Offs)
	if fl.Request() {
		me, u, v := sp(fl.Method), sp(fl.URI), sp(fl.Version)
		if me.a != start || me.b+1 != u.a || u.b+1 != v.a || buf[me.b] != ' ' || buf[u.b] != ' ' {
			return fail("request line fields not in order 'method SP uri SP version': %v %v %v", me, u, v)
		}
		if !onlyBytes(buf[v.b:flEnd], "\r\n") || v.b >= flEnd {
			return fail("request line: text between version end %d and the first header %d is not a line end", v.b, flEnd)
		}
	} else {
		v, c, r := sp(fl.Version), sp(fl.StatusCode), sp(fl.Reason)
		if v.a != start || v.b+1 != c.a || c.b-c.a != 3 {
			return fail("status line fields not in order: version %v code %v", v, c)
		}
		rs := c.b + 1
		if !fl.Reason.Empty() {
			if r.a != rs {
				return fail("reason %v does not start after 'code SP' at %d", r, rs)
			}
			rs = r.b
		}
		if !onlyBytes(buf[rs:flEnd], "\r\n") || rs >= flEnd {
			return fail("status line: text between reason end %d and the first header %d is not a line end", rs, flEnd)
		}
	}
	// headers: order, own line, separator text, trimming
	folds, repeated, multi := false, false, false
	seen := map[sipsp.HdrT]bool{}
	lineOf := make([]span, hl.N) // [name start, next name start / body start)
	for i := 0; i < hl.N; i++ {
		h := &hl.Hdrs[i]
		n := sp(h.Name)
		next := int(m.Body.Offs)
		if i+1 < hl.N {
			next = int(hl.Hdrs[i+1].Name.Offs)
		}
		lineOf[i] = span{n.a, next}
		if h.Name.Empty() {
			return fail("header %d has an empty name", i)
		}
		if i > 0 && n.a < lineOf[i-1].a {
			return fail("header %d starts at %d before header %d at %d", i, n.a, i-1, lineOf[i-1].a)
		}
		if n.b > next {
			return fail("header %d name %v runs into the next header at %d", i, n, next)
		}
		// after the name: WS* ':' LWS*
		p := n.b
		for p < next && (buf[p] == ' ' || buf[p] == '\t') {
			p++
		}
		if p >= next || buf[p] != ':' {
			return fail("header %d: no ':' after the name %q (found %q)", i, h.Name.Get(buf), buf[n.b:minInt(next, n.b+8)])
		}
		p++
		valEnd := p
		if !h.Val.Empty() {
			v := sp(h.Val)
			if v.a < p || v.b > next {
				return fail("header %d (%q): value %v not inside its own line [%d,%d)", i, h.Name.Get(buf), v, n.a, next)
			}
			// (only claimed for well-formed text: on malformed-but-accepted input the
			// name-addr parser skips stray separators before the value)
			if wellFormed && !onlyBytes(buf[p:v.a], " \t\r\n") {
				return fail("header %d: text between ':' and the value is not whitespace: %q", i, buf[p:v.a])
			}
			if isLWSByte(buf[v.a]) || isLWSByte(buf[v.b-1]) {
				return fail("header %d: value %q is not trimmed", i, h.Val.Get(buf))
			}
			valEnd = v.b
			for _, c := range h.Val.Get(buf) {
				if c == '\r' || c == '\n' {
					folds = true
				}
			}
		}
		tail := buf[valEnd:next]
		if seen[h.Type] && h.Type != sipsp.HdrOther {
			repeated = true
		}
		// a repeated single-value header, or text after '>' of a single-value header, is
		// parsed generically/ignored, so only whitespace-ness of the *generic* rest is claimed
		typedParse := h.Type == sipsp.HdrContact || h.Type == sipsp.HdrPAI
		switch h.Type {
		case sipsp.HdrFrom, sipsp.HdrTo, sipsp.HdrCallID, sipsp.HdrCSeq, sipsp.HdrCLen, sipsp.HdrExpires:
			typedParse = !seen[h.Type]
		}
		generic := !typedParse
		if generic && !onlyBytes(tail, " \t\r\n") {
			return fail("header %d (%q): text after the value up to the next header is not whitespace/line end: %q", i, h.Name.Get(buf), tail)
		}
		if len(tail) == 0 || (tail[len(tail)-1] != '\r' && tail[len(tail)-1] != '\n') {
			return fail("header %d: line does not end with a line end before offset %d", i, next)
		}
		seen[h.Type] = true
	}
	firstOf := func(t sipsp.HdrT) (int, bool) {
		for i := 0; i < hl.N; i++ {
			if hl.Hdrs[i].Type == t {
				return i, true
			}
		}
		return 0, false
	}
	pv := &m.PV
	// single-value typed headers: V equals the value of the first header of the type
	for _, x := range []struct {
		t sipsp.HdrT
		v sipsp.PField
		p bool
		n string
	}{{sipsp.HdrFrom, pv.From.V, pv.From.Parsed(), "From"}, {sipsp.HdrTo, pv.To.V, pv.To.Parsed(), "To"},
		{sipsp.HdrCallID, pv.Callid.CallID, pv.Callid.Parsed(), "Call-ID"}, {sipsp.HdrCSeq, pv.CSeq.V, pv.CSeq.Parsed(), "CSeq"},
		{sipsp.HdrCLen, pv.CLen.SVal, pv.CLen.Parsed(), "Content-Length"}, {sipsp.HdrExpires, pv.Expires.SVal, pv.Expires.Parsed(), "Expires"}} {
		i, present := firstOf(x.t)
		if present != x.p {
			return fail("%s: header present=%v but parsed value present=%v", x.n, present, x.p)
		}
		if !present {
			continue
		}
		if sp(x.v) != sp(hl.Hdrs[i].Val) {
			return fail("%s: parsed value %v is not the value %v of the first %s header (header %d)", x.n, sp(x.v), sp(hl.Hdrs[i].Val), x.n, i)
		}
		if !sp(x.v).inside(lineOf[i]) {
			return fail("%s: parsed value %v outside its header line %v", x.n, sp(x.v), lineOf[i])
		}
	}
	// documented state predicates: parsed <=> the header is present; never pending after success
	for _, x := range []struct {
		n                      string
		t                      sipsp.HdrT
		parsed, empty, pending bool
	}{{"From", sipsp.HdrFrom, pv.From.Parsed(), pv.From.Empty(), pv.From.Pending()},
		{"To", sipsp.HdrTo, pv.To.Parsed(), pv.To.Empty(), pv.To.Pending()},
		{"Call-ID", sipsp.HdrCallID, pv.Callid.Parsed(), pv.Callid.Empty(), pv.Callid.Pending()},
		{"CSeq", sipsp.HdrCSeq, pv.CSeq.Parsed(), pv.CSeq.Empty(), pv.CSeq.Pending()},
		{"Content-Length", sipsp.HdrCLen, pv.CLen.Parsed(), pv.CLen.Empty(), pv.CLen.Pending()},
		{"Expires", sipsp.HdrExpires, pv.Expires.Parsed(), pv.Expires.Empty(), pv.Expires.Pending()}} {
		_, present := firstOf(x.t)
		if x.parsed != present || x.empty != !present || x.pending {
			return fail("%s header present=%v but Parsed()=%v Empty()=%v Pending()=%v", x.n, present, x.parsed, x.empty, x.pending)
		}
	}
	_, hasCt := firstOf(sipsp.HdrContact)
	_, hasPAI := firstOf(sipsp.HdrPAI)
	if pv.Contacts.Parsed() != hasCt || pv.Contacts.Empty() != !hasCt || pv.PAIs.Parsed() != hasPAI || pv.PAIs.Empty() != !hasPAI {
		return fail("Contact present=%v: Parsed()=%v Empty()=%v; P-Asserted-Identity present=%v: Parsed()=%v Empty()=%v",
			hasCt, pv.Contacts.Parsed(), pv.Contacts.Empty(), hasPAI, pv.PAIs.Parsed(), pv.PAIs.Empty())
	}
	if !m.Parsed() || m.Err() || !m.FL.Parsed() || m.FL.Pending() || m.FL.Empty() {
		return fail("message / first line predicates after success: Parsed=%v Err=%v FL.Parsed=%v FL.Pending=%v FL.Empty=%v", m.Parsed(), m.Err(), m.FL.Parsed(), m.FL.Pending(), m.FL.Empty())
	}
	if i, okk := firstOf(sipsp.HdrFrom); okk {
		if r := nestFrom("From", &pv.From, sp(hl.Hdrs[i].Val)); r != "" {
			return fail("%s", r)
		}
	}
	if i, okk := firstOf(sipsp.HdrTo); okk {
		if r := nestFrom("To", &pv.To, sp(hl.Hdrs[i].Val)); r != "" {
			return fail("%s", r)
		}
	}
	if pv.CSeq.Parsed() {
		v := sp(pv.CSeq.V)
		if !sp(pv.CSeq.CSeq).inside(v) || !sp(pv.CSeq.Method).inside(v) || sp(pv.CSeq.CSeq).b > sp(pv.CSeq.Method).a {
			return fail("CSeq number %v / method %v not nested in order inside CSeq value %v", sp(pv.CSeq.CSeq), sp(pv.CSeq.Method), v)
		}
	}
	// multi-value lists: every stored value inside the value of one header of its kind, ascending and disjoint
	checkList := func(what string, t sipsp.HdrT, vals []sipsp.PFromBody, n int) string {
		var hv []span
		for i := 0; i < hl.N; i++ {
			if hl.Hdrs[i].Type == t {
				hv = append(hv, sp(hl.Hdrs[i].Val))
			}
		}
		prev := -1
		for k := 0; k < n; k++ {
			v := sp(vals[k].V)
			idx := -1
			for j, s := range hv {
				if v.inside(s) {
					idx = j
				}
			}
			if idx < 0 {
				return fmt.Sprintf("%s value %d %v is not inside the value of any %s header %v", what, k, v, what, hv)
			}
			if v.a < prev {
				return fmt.Sprintf("%s value %d %v overlaps or precedes the previous value ending at %d", what, k, v, prev)
			}
			prev = v.b
			if r := nestFrom(fmt.Sprintf("%s[%d]", what, k), &vals[k], hv[idx]); r != "" {
				return r
			}
		}
		return ""
	}
	if pv.Contacts.N > 1 || pv.PAIs.N > 1 {
		multi = true
	}
	if r := checkList("Contact", sipsp.HdrContact, pv.Contacts.Vals, pv.Contacts.VNo()); r != "" {
		return fail("%s", r)
	}
	if r := checkList("P-Asserted-Identity", sipsp.HdrPAI, pv.PAIs.Vals[:], pv.PAIs.VNo()); r != "" {
		return fail("%s", r)
	}
	// body, raw message, buffer view
	be := int(m.Body.Offs)
	if be < 1 || (buf[be-1] != '\r' && buf[be-1] != '\n') {
		return fail("body start %d is not right after a line end", be)
	}
	last := &hl.Hdrs[hl.N-1]
	afterLast := sp(last.Name).b
	if !last.Val.Empty() {
		afterLast = sp(last.Val).b
	}
	_ = afterLast
	if int(m.Body.Offs)+int(m.Body.Len) != o {
		return fail("body [%d,%d) does not end at the returned offset %d", m.Body.Offs, int(m.Body.Offs)+int(m.Body.Len), o)
	}
	if len(m.Buf) != o || (o > 0 && &m.Buf[0] != &buf[0]) {
		return fail("Buf is not buf[:%d] (len %d)", o, len(m.Buf))
	}
	if len(m.RawMsg) != o-start || (len(m.RawMsg) > 0 && &m.RawMsg[0] != &buf[start]) {
		return fail("RawMsg is not buf[%d:%d] (len %d)", start, o, len(m.RawMsg))
	}
	if folds {
		classes = append(classes, "fold")
	}
	if repeated {
		classes = append(classes, "repeated-known-header")
	}
	if multi {
		classes = append(classes, "multi-value")
	}
	return ok(hl.N >= 3 && (folds || repeated || multi), classes...)
}

// derefInside: every non-empty exported PField of the message inside the span.
func derefInside(m *sipsp.PSIPMsg, within span) string {
	var bad string
	walkPFields(m, "", func(path string, f sipsp.PField) {
		if bad == "" && f.Len > 0 && !sp(f).inside(within) {
			bad = fmt.Sprintf("%s %v", path, sp(f))
		}
	})
	return bad
}

var C05Contain = Register(&Check[CaseContain]{
	Prop: "C05", Name: "C05.contain",
	Gen: func(t *rapid.T) CaseContain {
		cs := CaseContain{Flags: uint(rapid.IntRange(0, 3).Draw(t, "flags"))}
		switch weighted(t, "input_class", 5, 2, 2, 2) {
		case 0:
			cs.Buf, cs.Class = genValidMsg(t, 10).Render(), "in:grammar"
		case 1:
			cs.Buf, cs.Class = mutate(t, genValidMsg(t, 10).Render(), 2), "in:mutated"
		case 2:
			cs.Buf, cs.Class = genValidMsg(t, 40).Render(), "in:grammar-many-headers"
		default:
			cs.Buf, cs.Class = mutate(t, pick(t, "corpus", corpusMsgs()...), 1), "in:corpus-mutated"
		}
		cs.Pre = genJunkPrefix(t)
		if rapid.Bool().Draw(t, "chunked") {
			cs.Sched = genSchedule(t, len(cs.Buf), hotPositions(cs.Buf))
		}
		if rapid.IntRange(0, 3).Draw(t, "smallcap") == 0 {
			cs.HCap = pick(t, "hcap", -1, 1, 2, 3, 5)
		}
		return cs
	},
	Eval: evalContain,
})

// genValidMsg: a message whose typed headers carry type-valid values, with a
// realistic core (From/To/Call-ID/CSeq/Via) and repeated / multi-value headers.
func genValidMsg(t *rapid.T, maxHdrs int) MsgSpec {
	var m MsgSpec
	m.FL = genFLine(t)
	n := rapid.IntRange(1, maxHdrs).Draw(t, "nhdrs")
	if maxHdrs >= 4 && oneIn(t, "nhdrs_needle", 50) {
		n = manyN(t, "nhdrs_many", 130)
	}
	for i := 0; i < n; i++ {
		var h HdrSpec
		if rapid.IntRange(0, 2).Draw(t, "core") != 0 {
			h.Name = recase(t, pick(t, "corename", "From", "To", "Call-ID", "CSeq", "Via", "Contact", "Contact", "m",
				"P-Asserted-Identity", "P-Asserted-Identity", "Expires", "f", "t", "i", "Route", "Max-Forwards", "User-Agent"))
			h.PreWS = genWS(t, "prews")
			h.PostLWS = genLWS(t, "postlws")
			h.TrailWS = genLWS(t, "trailws")
			h.EOL = genEOL(t, "eol")
		} else {
			h = genHdr(t, false)
		}
		h.Val = genValidTypedVal(t, asciiLower(h.Name))
		h.normalise()
		if ln := asciiLower(h.Name); ln == "content-length" || ln == "l" {
			continue // added below, consistent with the body
		}
		m.Hdrs = append(m.Hdrs, h)
	}
	m.Blank = genEOL(t, "blank")
	if rapid.Bool().Draw(t, "hasbody") {
		m.Body = genFrom(t, "body", "abcdefghij v=0\r\n:", 1, 60)
	}
	if rapid.IntRange(0, 3).Draw(t, "hascl") != 0 {
		cl := HdrSpec{Name: recase(t, pick(t, "clname", "Content-Length", "l")), PostLWS: B(" "),
			Val: B(fmt.Sprintf("%d", len(m.Body))), EOL: B("\r\n")}
		pos := rapid.IntRange(0, len(m.Hdrs)).Draw(t, "clpos")
		m.Hdrs = append(m.Hdrs[:pos:pos], append([]HdrSpec{cl}, m.Hdrs[pos:]...)...)
	}
	if len(m.Hdrs) == 0 {
		m.Hdrs = append(m.Hdrs, HdrSpec{Name: B("X"), Val: B("y"), EOL: B("\r\n")})
	}
	fixMsgSpec(&m)
	if string(m.Blank) == "\r" && len(m.Body) == 0 {
		m.Blank = B("\r\n") // a lone CR at the very end would need one more byte of look-ahead
	}
	return m
}
