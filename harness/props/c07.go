package props

// C07: header block tokenisation is faithful to the text.

import (
	"bytes"
	"fmt"
	"sort"

	"github.com/intuitivelabs/sipsp"
	"pgregory.net/rapid"
)

// CaseHdrBlock: a well-formed header block by construction.
type CaseHdrBlock struct {
	Hdrs   []HdrSpec `json:"hdrs"`
	Blank  B         `json:"blank"`
	Tail   B         `json:"tail"`    // bytes after the blank line (a body)
	Typed  bool      `json:"typed"`   // hb = &PHdrVals (typed headers carry type-valid values) / hb = nil
	HdrCap int       `json:"hdr_cap"` // -1 = nil array
	CtCap  int       `json:"ct_cap"`
	Sched  []int     `json:"sched"` // optional chunk schedule (the tokenisation must not depend on it)
}

func (c CaseHdrBlock) render() ([]byte, []int, []int) {
	var w bytes.Buffer
	var nameOffs, valOffs []int
	for _, h := range c.Hdrs {
		nameOffs = append(nameOffs, w.Len())
		w.Write(h.Name)
		w.Write(h.PreWS)
		w.WriteByte(':')
		w.Write(h.PostLWS)
		valOffs = append(valOffs, w.Len())
		w.Write(h.Val)
		w.Write(h.TrailWS)
		w.Write(h.EOL)
	}
	w.Write(c.Blank)
	w.Write(c.Tail)
	return w.Bytes(), nameOffs, valOffs
}

func evalHdrBlock(c CaseHdrBlock) Result {
	if len(c.Hdrs) == 0 {
		return Result{Skip: true}
	}
	if string(c.Blank) == "\r" && (len(c.Tail) == 0 || c.Tail[0] == '\n') {
		// a lone CR needs one byte of look-ahead (documented): not a complete block
		return Result{Skip: true}
	}
	buf, nameOffs, valOffs := c.render()
	kind := KHeadersNil
	if c.Typed {
		kind = KHeaders
	}
	st := NewStepper(Cfg{Kind: kind, HdrCap: c.HdrCap, CtCap: c.CtCap, PCap: -1})
	o := 0
	var e sipsp.ErrorHdr
	for _, cp := range normSchedule(c.Sched, len(buf)) {
		o, e = st.Step(buf[:cp:cp], o, false)
		if e != sipsp.ErrHdrMoreBytes {
			break
		}
	}
	hdrEnd := len(buf) - len(c.Tail)
	if e != 0 || o != hdrEnd {
		return viol("ParseHeaders on a well-formed block of %d headers returned (%d, %v), want (%d, no error)\nblock=%s", len(c.Hdrs), o, e, hdrEnd, B(buf))
	}
	hl := st.hl
	if hl.N != len(c.Hdrs) {
		return viol("header count N = %d, the block has %d logical lines\nblock=%s", hl.N, len(c.Hdrs), B(buf))
	}
	var flags sipsp.HdrFlags
	first := map[sipsp.HdrT]int{}
	classes := []string{}
	nt := false
	for i, h := range c.Hdrs {
		t := refHdrType(h.Name)
		flags |= 1 << t
		if _, okk := first[t]; !okk {
			first[t] = i
		}
		if bytes.ContainsAny(h.Val, "\r\n") || bytes.ContainsAny(h.PostLWS, "\r\n") || bytes.ContainsAny(h.TrailWS, "\r\n") {
			nt = true
			classes = append(classes, "fold")
		}
		if string(h.EOL) != "\r\n" {
			nt = true
			classes = append(classes, "lone-CR/LF")
		}
		if len(h.PreWS) > 0 {
			nt = true
			classes = append(classes, "ws-before-colon")
		}
		if len(h.Val) == 0 {
			nt = true
			classes = append(classes, "empty-value")
		}
		if t != sipsp.HdrOther && (len(h.Name) == 1 || string(h.Name) != canonicalName(h.Name)) {
			nt = true
			classes = append(classes, "compact-or-recased")
		}
	}
	if hl.PFlags != flags {
		return viol("PFlags = %#x, the set of types in the block is %#x\nblock=%s", uint(hl.PFlags), uint(flags), B(buf))
	}
	// the exported accessors and constants of the flag set say the same thing
	for t, f := range map[sipsp.HdrT]sipsp.HdrFlags{sipsp.HdrFrom: sipsp.HdrFromF, sipsp.HdrTo: sipsp.HdrToF, sipsp.HdrCallID: sipsp.HdrCallIDF,
		sipsp.HdrCSeq: sipsp.HdrCSeqF, sipsp.HdrVia: sipsp.HdrViaF, sipsp.HdrMaxFwd: sipsp.HdrMaxFwdF, sipsp.HdrCLen: sipsp.HdrCLenF,
		sipsp.HdrContact: sipsp.HdrContactF, sipsp.HdrExpires: sipsp.HdrExpiresF, sipsp.HdrUA: sipsp.HdrUAF, sipsp.HdrRecordRoute: sipsp.HdrRecordRouteF,
		sipsp.HdrRoute: sipsp.HdrRouteF, sipsp.HdrPAI: sipsp.HdrPAIF, sipsp.HdrOther: sipsp.HdrOtherF} {
		if (hl.PFlags&f != 0) != (flags&(1<<t) != 0) || f == 0 {
			return viol("PFlags %#x tested with the exported flag constant of %v (%#x) disagrees with the types seen (%#x)\nblock=%s", uint(hl.PFlags), t, uint(f), uint(flags), B(buf))
		}
	}
	{
		var present, absent []sipsp.HdrT
		for t := sipsp.HdrT(1); t <= sipsp.HdrOther; t++ {
			in := flags&(1<<t) != 0
			if hl.PFlags.Test(t) != in {
				return viol("PFlags.Test(%v) = %v, the block %s such a header\nblock=%s", t, !in, map[bool]string{true: "has", false: "has no"}[in], B(buf))
			}
			if in {
				present = append(present, t)
			} else {
				absent = append(absent, t)
			}
		}
		if !hl.PFlags.AllSet(present...) || hl.PFlags.Any(absent...) || (len(present) > 0 && !hl.PFlags.Any(present[len(present)-1])) ||
			(len(absent) > 0 && hl.PFlags.AllSet(append(append([]sipsp.HdrT{}, present...), absent[0])...)) ||
			(len(present) > 0 && len(absent) > 0 && !hl.PFlags.Any(absent[0], present[0])) {
			return viol("PFlags %#x: AllSet(present)=%v Any(absent)=%v are inconsistent with the types seen %v\nblock=%s", uint(hl.PFlags), hl.PFlags.AllSet(present...), hl.PFlags.Any(absent...), present, B(buf))
		}
		f2 := hl.PFlags
		if len(present) > 0 {
			f2.Clear(present[0])
			if f2.Test(present[0]) || f2|1<<present[0] != hl.PFlags {
				return viol("HdrFlags.Clear(%v) on %#x gives %#x", present[0], uint(hl.PFlags), uint(f2))
			}
		}
		if len(absent) > 0 {
			f2 = hl.PFlags
			f2.Set(absent[0])
			if !f2.Test(absent[0]) || f2&^(1<<absent[0]) != hl.PFlags {
				return viol("HdrFlags.Set(%v) on %#x gives %#x", absent[0], uint(hl.PFlags), uint(f2))
			}
		}
		f2.Reset()
		if f2 != 0 {
			return viol("HdrFlags.Reset() leaves %#x", uint(f2))
		}
	}
	stored := len(c.Hdrs)
	if stored > len(hl.Hdrs) {
		stored = len(hl.Hdrs)
		nt = true
		classes = append(classes, "capacity<N")
	}
	check := func(what string, h *sipsp.Hdr, i int) string {
		sp := c.Hdrs[i]
		if h.Type != refHdrType(sp.Name) {
			return fmt.Sprintf("%s: Type = %v, reference classification of %q is %v", what, h.Type, sp.Name, refHdrType(sp.Name))
		}
		if int(h.Name.Offs) != nameOffs[i] || !bytes.Equal(h.Name.Get(buf), sp.Name) {
			return fmt.Sprintf("%s: Name = (%d,%d) %q, want (%d,%d) %q", what, h.Name.Offs, h.Name.Len, h.Name.Get(buf), nameOffs[i], len(sp.Name), sp.Name)
		}
		if len(sp.Val) == 0 {
			if !h.Val.Empty() {
				return fmt.Sprintf("%s: Val = (%d,%d) %q, want empty", what, h.Val.Offs, h.Val.Len, h.Val.Get(buf))
			}
		} else if int(h.Val.Offs) != valOffs[i] || !bytes.Equal(h.Val.Get(buf), sp.Val) {
			return fmt.Sprintf("%s: Val = (%d,%d) %q, want (%d,%d) %q", what, h.Val.Offs, h.Val.Len, h.Val.Get(buf), valOffs[i], len(sp.Val), sp.Val)
		}
		return ""
	}
	for i := 0; i < stored; i++ {
		if m := check(fmt.Sprintf("stored header %d", i), &hl.Hdrs[i], i); m != "" {
			return viol("%s\nblock=%s", m, B(buf)).with(nt, classes...)
		}
	}
	for t := sipsp.HdrFrom; t < sipsp.HdrOther; t++ {
		g := hl.GetHdr(t)
		i, present := first[t]
		if g == nil {
			return viol("GetHdr(%v) = nil", t)
		}
		if !present {
			if !g.Missing() {
				return viol("GetHdr(%v) reports a header but the block has none of that type\nblock=%s", t, B(buf))
			}
			continue
		}
		if g.Missing() {
			return viol("GetHdr(%v) is missing but header %d has that type\nblock=%s", t, i, B(buf))
		}
		if m := check(fmt.Sprintf("GetHdr(%v) (first of its type is header %d)", t, i), g, i); m != "" {
			return viol("%s\nblock=%s", m, B(buf)).with(nt, classes...)
		}
	}
	if hl.GetHdr(sipsp.HdrNone) != nil || hl.GetHdr(sipsp.HdrOther) != nil {
		return viol("GetHdr(none/other) must be nil")
	}
	// SetHdr (documented: true if added, false if a header of that type is already there or the type is invalid);
	// done last, it modifies the first-of-type table
	for t := sipsp.HdrNone; t <= sipsp.HdrOther+1; t++ {
		_, have := first[t]
		valid := t > sipsp.HdrNone && t < sipsp.HdrOther
		nh := sipsp.Hdr{Type: t}
		nh.Name.Set(1, 2)
		if got := hl.SetHdr(&nh); got != (valid && !have) {
			return viol("SetHdr(type %v) = %v; valid type: %v, a header of that type already seen: %v\nblock=%s", t, got, valid, have, B(buf))
		}
		if valid && !have {
			if g := hl.GetHdr(t); g == nil || g.Type != t || g.Name.Offs != 1 || g.Name.Len != 1 {
				return viol("GetHdr(%v) after a successful SetHdr does not return the header that was set", t)
			}
		}
	}
	return ok(nt && len(c.Hdrs) >= 2, classes...)
}

func canonicalName(n []byte) string {
	l := asciiLower(n)
	for _, k := range knownHdrNames {
		if asciiLower([]byte(k)) == l {
			return k
		}
	}
	return string(n)
}

// genValidTypedVal: a value the header-specific parser accepts (numbers in range).
func genValidTypedVal(t *rapid.T, lname string) B {
	switch lname {
	case "cseq":
		var w bytes.Buffer
		fmt.Fprintf(&w, "%d", rapid.Uint32().Draw(t, "cseqn"))
		w.Write(genLWS1(t, "cseqws"))
		w.WriteString(pick(t, "cseqm", "INVITE", "REGISTER", "ACK", "BYE", "OPTIONS", "FOO", "invite", "NOTIFY", "1X"))
		return w.Bytes()
	case "content-length", "l":
		return B(fmt.Sprintf("%d", rapid.IntRange(0, 1<<24).Draw(t, "cln")))
	case "expires":
		return B(fmt.Sprintf("%d", rapid.Uint32().Draw(t, "exn")))
	}
	return genTypedVal(t, lname)
}

func genHdrBlock(t *rapid.T) CaseHdrBlock {
	var c CaseHdrBlock
	c.Typed = rapid.Bool().Draw(t, "typed")
	n := 0
	switch weighted(t, "nh_k", 6, 3, 1) {
	case 0:
		n = rapid.IntRange(1, 8).Draw(t, "nh")
	case 1:
		n = rapid.IntRange(9, 25).Draw(t, "nh")
	default:
		n = rapid.IntRange(26, 60).Draw(t, "nh")
	}
	for i := 0; i < n; i++ {
		h := genHdr(t, false)
		if c.Typed {
			h.Val = genValidTypedVal(t, asciiLower(h.Name))
			h.normalise()
		}
		c.Hdrs = append(c.Hdrs, h)
	}
	c.Blank = genEOL(t, "blank")
	c.Tail = B(pick(t, "tail", "", "body", "x", "v=0\r\n"))
	if string(c.Blank) == "\r" && len(c.Tail) == 0 {
		c.Tail = B("b")
	}
	c.HdrCap = pick(t, "hcap", -1, 0, 1, 2, 5, 10, 64, 64, 64, n, n+1, n-1)
	c.CtCap = pick(t, "ccap", -1, 0, 1, 10)
	if rapid.IntRange(0, 2).Draw(t, "chunked") == 0 {
		k := rapid.IntRange(1, 5).Draw(t, "ncuts")
		for i := 0; i < k; i++ {
			c.Sched = append(c.Sched, rapid.IntRange(1, 500).Draw(t, "cut"))
		}
		sort.Ints(c.Sched)
	}
	// grammar side conditions
	m := MsgSpec{Hdrs: c.Hdrs, Blank: c.Blank, Body: c.Tail, FL: FLSpec{EOL: B("\r\n")}}
	fixMsgSpec(&m)
	c.Hdrs, c.Blank = m.Hdrs, m.Blank
	return c
}

var C07Block = Register(&Check[CaseHdrBlock]{Prop: "C07", Name: "C07.block", Gen: genHdrBlock, Eval: evalHdrBlock})

// enumHdrBlocks enumerates small header blocks exhaustively for the model-by-construction oracle: one header over
// every combination of name kind x blank before the colon x whitespace/fold after it x value shape (empty, token,
// inner blanks, folded) x trailing whitespace x line end, two headers over a reduced product, each under the three
// blank-line kinds, ample / one-element / no header array, hb == nil (generic values) and hb == &PHdrVals (typed names
// with valid values). allCuts: every single cut of the block, otherwise one-shot and one cut in the middle.
func enumHdrBlocks(allCuts bool, shard, nshards int, emit func(CaseHdrBlock) bool) {
	eols := []string{"\r\n", "\n", "\r"}
	type nv struct {
		name string
		vals []string
	}
	generic := []nv{{"From", nil}, {"f", nil}, {"X-Hdr", nil}, {"l", nil}, {"Via", nil}, {"call-id", nil}}
	gvals := []string{"", "v", "a  b", "a\r\n b", "a,\r\n\tb c"}
	typed := []nv{{"From", []string{"<sip:a@b>;tag=1", "\"x, y\" <sip:a@b>"}}, {"t", []string{"sip:c@d;tag=2"}}, {"l", []string{"0", "12"}},
		{"Via", []string{"SIP/2.0/UDP h;branch=z9hG4bKx"}}, {"X-Hdr", []string{"", "v", "a\r\n b"}}, {"CSeq", []string{"1 INVITE"}},
		{"Contact", []string{"<sip:c@d>;expires=3 , <sip:e@f>", "*"}}, {"m", []string{"sip:g@h"}}, {"Call-ID", []string{"abc@h"}}}
	mkSpecs := func(tbl []nv, pre, post, trail, eol []string) []HdrSpec {
		var out []HdrSpec
		for _, e := range tbl {
			vs := e.vals
			if vs == nil {
				vs = gvals
			}
			for _, v := range vs {
				for _, pw := range pre {
					for _, po := range post {
						for _, tr := range trail {
							for _, el := range eol {
								out = append(out, HdrSpec{Name: B(e.name), PreWS: B(pw), PostLWS: B(po), Val: B(v), TrailWS: B(tr), EOL: B(el)})
							}
						}
					}
				}
			}
		}
		return out
	}
	idx := 0
	run := func(hs []HdrSpec, isTyped bool) bool {
		idx++
		if idx%nshards != shard {
			return true
		}
		for _, blank := range eols {
			for _, hcap := range []int{64, 1, -1} {
				c := CaseHdrBlock{Hdrs: append([]HdrSpec{}, hs...), Blank: B(blank), Tail: B("b"), Typed: isTyped, HdrCap: hcap, CtCap: 1}
				m := MsgSpec{Hdrs: c.Hdrs, Blank: c.Blank, Body: c.Tail, FL: FLSpec{EOL: B("\r\n")}}
				fixMsgSpec(&m)
				c.Hdrs, c.Blank = m.Hdrs, m.Blank
				buf, _, _ := c.render()
				cuts := []int{0, len(buf) / 2}
				if allCuts {
					cuts = cuts[:1]
					for k := 1; k < len(buf); k++ {
						cuts = append(cuts, k)
					}
				}
				for _, k := range cuts {
					c.Sched = nil
					if k > 0 {
						c.Sched = []int{k}
					}
					if !emit(c) {
						return false
					}
				}
			}
		}
		return true
	}
	for _, isTyped := range []bool{false, true} {
		tbl := generic
		if isTyped {
			tbl = typed
		}
		one := mkSpecs(tbl, []string{"", " ", "\t "}, []string{"", " ", "\r\n ", " \r\n\t"}, []string{"", " ", "\r\n "}, eols)
		for _, h := range one {
			if !run([]HdrSpec{h}, isTyped) {
				return
			}
		}
		two := mkSpecs(tbl, []string{"", " "}, []string{"", "\r\n "}, []string{"", " "}, eols)
		if isTyped {
			two = mkSpecs(tbl, []string{"", " "}, []string{" "}, []string{"", " "}, []string{"\r\n", "\n"})
		}
		for _, a := range two {
			for _, b := range two {
				if isTyped {
					la, lb := asciiLower(a.Name), asciiLower(b.Name)
					if la == lb && la != "contact" && la != "x-hdr" {
						continue // a repeated From/To/Call-ID/CSeq/Content-Length is C05/C12 material
					}
				}
				if !run([]HdrSpec{a, b}, isTyped) {
					return
				}
			}
		}
	}
}
