package props

// Native coverage-guided fuzz targets (thorough tier). The fuzzer's bytes are
// decoded into the same Case values the rapid checks use, and the same oracle
// functions decide; a failing case is saved as a replay file.

import (
	"testing"
)

func fuzzFail[C any](t *testing.T, chk *Check[C], cs C, r Result) {
	if r.Viol && !isKnown(r.Key) {
		p := chk.coll().saveViolation(cs, r.Msg)
		t.Fatalf("VIOLATION-FOUND property=%s check=%s replay=%s\n%s", chk.Prop, chk.Name, p, r.Msg)
	}
}

// schedFromSeed derives a schedule from two fuzzer-controlled numbers.
func schedFromSeed(n int, step uint8, first uint16) []int {
	if n <= 0 {
		return nil
	}
	st := int(step%9) + 1
	var s []int
	for c := int(first) % (n + 1); c < n; c += st {
		if c > 0 {
			s = append(s, c)
		}
		if step > 200 {
			st = st*2 + 1 // growing steps
		}
	}
	return append(s, n)
}

func fuzzCfg(kind string, a, b uint8) Cfg {
	c := Cfg{Kind: kind, HdrCap: int(a%8) - 1, CtCap: int((a>>3)%6) - 1, PCap: int((a>>6)%4) - 1}
	switch kind {
	case KMsg:
		c.Flags = uint(b & 3)
		c.EndLast = b&4 != 0
	case KTokParam, KURIParams, KURIHdrs:
		c.Flags = uint(b) &^ 8
		c.EndLast = b&8 != 0
	case KNameAddr:
		c.HType = nameAddrTypes[int(b)%len(nameAddrTypes)]
	}
	return c
}

func addMsgSeeds(f *testing.F) {
	for _, m := range corpusMsgs() {
		f.Add(m, uint8(0), uint8(0), uint8(1), uint16(0))
		f.Add(m, uint8(9), uint8(6), uint8(3), uint16(17))
	}
}

func FuzzC01(f *testing.F) {
	addMsgSeeds(f)
	f.Fuzz(func(t *testing.T, data []byte, a, b, step uint8, first uint16) {
		if len(data) > 4096 {
			return
		}
		cs := CaseResume{Cfg: fuzzCfg(KMsg, a, b), Buf: data, Sched: schedFromSeed(len(data), step, first), Fresh: step&1 == 1}
		fuzzFail(t, C01Msg, cs, guard(func() Result { return evalResume(cs) }))
	})
}

func FuzzC02(f *testing.F) {
	for i, k := range subKinds {
		f.Add([]byte("<sip:a@b>;tag=1;q=0.5 , \"x\" <sip:c>;expires=3\r\nX"), uint8(i), uint8(0), uint8(0), uint8(1), uint16(0))
		f.Add([]byte("a=1;b=\"q\\\"\";lr , x\r\nN"), uint8(i), uint8(3), uint8(0x14), uint8(2), uint16(1))
		f.Add([]byte(" 4711 INVITE \r\n \r\nX"), uint8(i), uint8(0), uint8(0), uint8(1), uint16(0))
		f.Add([]byte("SIP/2.0 200 OK\r\nFrom: <a>\r\n\r\n"), uint8(i), uint8(0), uint8(0), uint8(1), uint16(0))
		_ = k
	}
	f.Fuzz(func(t *testing.T, data []byte, kind, a, b, step uint8, first uint16) {
		if len(data) > 2048 {
			return
		}
		k := subKinds[int(kind)%len(subKinds)]
		cs := CaseResume{Cfg: fuzzCfg(k, a, b), Buf: data, Sched: schedFromSeed(len(data), step, first)}
		fuzzFail(t, C02Sub, cs, guard(func() Result { return evalResume(cs) }))
	})
}

func FuzzC03(f *testing.F) {
	for i := range allKinds {
		f.Add([]byte("SIP/2.0 200 OK\r\nl: 3\r\n\r\nabc"), uint8(i), uint8(0), uint8(0), []byte("\r\n "))
		f.Add([]byte("<sip:a>;tag=x\r"), uint8(i), uint8(0), uint8(0), []byte("\n "))
		f.Add([]byte("a=\"b\" "), uint8(i), uint8(0), uint8(0x14), []byte("c"))
	}
	f.Fuzz(func(t *testing.T, data []byte, kind, a, b uint8, sfx []byte) {
		if len(data) > 512 || len(sfx) > 16 {
			return
		}
		k := allKinds[int(kind)%len(allKinds)]
		cfg := fuzzCfg(k, a, b)
		cfg.EndLast = false
		cs := CasePrem{Cfg: cfg, Buf: data, Sfx: append([]B{B(sfx)}, stdSuffixes[:6]...)}
		fuzzFail(t, C03Prem, cs, guard(func() Result { return evalPremature(cs) }))
	})
}

func FuzzC04(f *testing.F) {
	for i := range allKinds {
		f.Add([]byte("INVITE sip:a SIP/2.0\r\nm: <sip:a>;q=1, *\r\n\r\n"), uint8(i), uint8(0), uint8(0), uint8(1), uint16(0), uint16(0))
		f.Add([]byte("sip:u:p@[::1]:5060;lr?h=1"), uint8(i), uint8(0xff), uint8(0xff), uint8(7), uint16(3), uint16(2))
	}
	f.Fuzz(func(t *testing.T, data []byte, kind, a, b, step uint8, first, offs uint16) {
		if len(data) > 4096 {
			return
		}
		k := allKinds[int(kind)%len(allKinds)]
		cfg := fuzzCfg(k, a, b)
		if k == KMsg {
			cfg.Flags = uint(b & 7)
		}
		o := 0
		if len(data) > 0 {
			o = int(offs) % (len(data) + 1)
		}
		var sched []int
		for _, c := range schedFromSeed(len(data)-o, step, first) {
			sched = append(sched, o+c)
		}
		cs := CaseSane{Cfg: cfg, Buf: data, Offs: o, Sched: sched, ZeroOb: a == 0xfe}
		fuzzFail(t, C04Sane, cs, guard(func() Result { return evalSane(cs) }))
		half := len(data) / 2
		api := CaseAPI{A: data[:half], Bb: data[half:], Flags: uint(b), N1: int(first), N2: int(offs)}
		fuzzFail(t, C04API, api, guard(func() Result { return evalAPI(api) }))
	})
}

func FuzzC14(f *testing.F) {
	for _, s := range []string{"sip:a", "sips:u:p@h:5060;x=1;lr?a=b&c", "tel:+1-234;ext=5", "sip:[::1]:5;p", "SIP:u;x?y:z@h", "sip:u@h:"} {
		f.Add([]byte(s), uint16(0), uint16(0))
	}
	f.Fuzz(func(t *testing.T, data []byte, off, span uint16) {
		if len(data) > 1024 {
			return
		}
		cs := CaseURI{U: data}
		fuzzFail(t, C14URI, cs, guard(func() Result { return evalURI(cs) }))
		rc := CaseReloc{U: data, Off: int(off), Span: int(span) % (len(data) + 40)}
		fuzzFail(t, C18Reloc, rc, guard(func() Result { return evalReloc(rc) }))
	})
}

func FuzzC20(f *testing.F) {
	for _, s := range []string{"1.2.3.4", "a-10.0.0.256.1@x", "999.1.2.3.4.5", "1.2.3.2540"} {
		f.Add([]byte(s))
	}
	f.Fuzz(func(t *testing.T, data []byte) {
		if len(data) > 600 {
			return
		}
		cs := CaseText{S: data}
		fuzzFail(t, C20IP4, cs, guard(func() Result { return evalIP4(cs) }))
	})
}

// FuzzC05: containment / nesting / order invariants on whatever the fuzzer gets accepted.
func FuzzC05(f *testing.F) {
	addMsgSeeds(f)
	f.Fuzz(func(t *testing.T, data []byte, a, b, step uint8, first uint16) {
		if len(data) > 4096 {
			return
		}
		hcap := 0
		switch a % 4 {
		case 1:
			hcap = -1
		case 2:
			hcap = 1 + int(a>>2)%6
		}
		cs := CaseContain{Buf: data, Flags: uint(b & 3), Sched: schedFromSeed(len(data), step, first), HCap: hcap, Class: "in:fuzz"}
		if b&0x80 != 0 {
			cs.Pre = B("\r\n\r\n")[:1+int(b>>4)%4]
		}
		fuzzFail(t, C05Contain, cs, guard(func() Result { return evalContain(cs) }))
	})
}

// FuzzC11: the same bytes at offset 0 and behind k junk bytes, for the message parser and every stand-alone parser.
func FuzzC11(f *testing.F) {
	for i := range allKinds {
		f.Add([]byte("INVITE sip:a SIP/2.0\r\nm: \"x\" <sip:a>;q=1, *\r\nl: 2\r\n\r\nab"), uint8(i), uint8(0), uint8(0), uint8(1), uint16(0), uint16(5))
		f.Add([]byte("a=1;b=\"q\\\"\";lr , x\r\nN"), uint8(i), uint8(3), uint8(0x14), uint8(2), uint16(1), uint16(300))
	}
	f.Fuzz(func(t *testing.T, data []byte, kind, a, b, step uint8, first, k uint16) {
		if len(data) > 2048 || len(data) == 0 {
			return
		}
		kd := allKinds[int(kind)%len(allKinds)]
		kk := 1 + int(k)%3000
		if k == 0xffff {
			kk = -1 // the text ends exactly at 65,535
		}
		cs := CaseShift{Cfg: fuzzCfg(kd, a, b), Buf: data, K: kk, Junk: B("x\r\n :;<\"")[:1+int(a)%8], Sched: schedFromSeed(len(data), step, first)}
		fuzzFail(t, C11Shift, cs, guard(func() Result { return evalShift(cs) }))
	})
}

// FuzzC13: small caller arrays against ample ones on whatever parses successfully.
func FuzzC13(f *testing.F) {
	for i := range allKinds {
		f.Add([]byte("REGISTER sip:r SIP/2.0\r\nm: <sip:a>;expires=5, <sip:b>;expires=9\r\nContact: <sip:c>\r\nv: x\r\nv: y\r\nl: 0\r\n\r\n"), uint8(i), uint8(9), uint8(0), uint8(1), uint16(0))
		f.Add([]byte("transport=udp;maddr=1.2.3.4;ttl=3;x;y=z?h"), uint8(i), uint8(0x40), uint8(2), uint8(3), uint16(2))
	}
	f.Fuzz(func(t *testing.T, data []byte, kind, a, b, step uint8, first uint16) {
		if len(data) > 4096 {
			return
		}
		kd := allKinds[int(kind)%len(allKinds)]
		cs := CaseCap{Cfg: fuzzCfg(kd, a, b), Buf: data, Sched: schedFromSeed(len(data), step, first), Class: "in:fuzz"}
		if b&0x80 != 0 {
			cs.Pre = B("zz\r\n")
		}
		fuzzFail(t, C13Cap, cs, guard(func() Result { return evalCap(cs) }))
	})
}

// FuzzC12: one earlier use (complete, abandoned or failed), a reset, then the probe - against a new object.
func FuzzC12(f *testing.F) {
	for i := range allKinds {
		f.Add([]byte("INVITE sip:a SIP/2.0\r\nm: <sip:a>;q=1, <sip:b>\r\nf: \"x"), []byte("SIP/2.0 200 OK\r\nm: <sip:c>\r\n\r\n"), uint8(i), uint8(9), uint8(0), uint8(2), uint16(7))
		f.Add([]byte("a=1;b=\"q"), []byte("c;d=e\r\nX"), uint8(i), uint8(0), uint8(0x14), uint8(1), uint16(3))
	}
	f.Fuzz(func(t *testing.T, first, probe []byte, kind, a, b, step uint8, cut uint16) {
		if len(first) > 2048 || len(probe) > 2048 {
			return
		}
		kd := allKinds[int(kind)%len(allKinds)]
		cfg := fuzzCfg(kd, a, b)
		op := Op{Buf: first, Sched: schedFromSeed(len(first), step, cut), Flags: cfg.Flags, EndLast: cfg.EndLast, UseInit: step&1 == 1}
		if step&2 != 0 {
			op.Abandon = 1 + int(step>>2)%3
		}
		cs := CaseReset{Cfg: cfg, Ops: []Op{op}, Probe: probe, PSch: schedFromSeed(len(probe), step>>1, cut>>3)}
		fuzzFail(t, C12Reset, cs, guard(func() Result { return evalReset(cs) }))
	})
}
