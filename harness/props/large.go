package props

// large.go: constructed inputs near the documented 65,535-byte limit.

import (
	"bytes"
	"fmt"
)

// largeMsgs builds messages whose total length is exactly `total` (<= 65535):
// long body, many headers, one very long folded header value.
func largeMsgs(total int) [][]byte {
	var out [][]byte
	head := "INVITE sip:x@y.com SIP/2.0\r\nFrom: \"big\" <sip:a@foo.bar>;tag=1234\r\nTo: <sip:x@y.com>\r\nCall-ID: a84b4c76e66710\r\n" +
		"CSeq: 314159 INVITE\r\nVia: SIP/2.0/UDP 1.2.3.4;branch=z9hG4bKnashds8\r\nContact: <sip:a@1.2.3.4>;expires=60\r\n"
	// 1. long body with an exact Content-Length
	for _, n := range []int{total} {
		// solve for body length so that the total is n
		for bl := n - len(head) - 40; bl < n; bl++ {
			m := head + fmt.Sprintf("Content-Length: %d\r\n\r\n", bl)
			if len(m)+bl == n {
				out = append(out, append([]byte(m), bytes.Repeat([]byte("v=0\r\n"), bl/5+1)[:bl]...))
				break
			}
		}
	}
	// 2. many short headers
	{
		var w bytes.Buffer
		w.WriteString(head)
		i := 0
		for w.Len() < total-60 {
			fmt.Fprintf(&w, "X-H%d: v%d\r\n", i, i)
			i++
		}
		w.WriteString("l: 0\r\n")
		for w.Len() < total-2 {
			w.WriteString("Y: ")
			pad := total - 2 - w.Len() - 5
			if pad < 0 {
				pad = 0
			}
			w.Write(bytes.Repeat([]byte("p"), pad))
			w.WriteString("\r\n")
		}
		w.WriteString("\r\n")
		b := w.Bytes()
		if len(b) > total {
			b = b[:total]
		}
		out = append(out, append([]byte{}, b...))
	}
	// 3. one very long folded Contact list
	{
		var w bytes.Buffer
		w.WriteString(head)
		w.WriteString("m: <sip:first@h>;expires=1")
		i := 0
		for w.Len() < total-120 {
			fmt.Fprintf(&w, ",\r\n <sip:u%d@host%d.example.org:5060;transport=tcp>;q=0.%d;expires=%d", i, i, i%10, 100+i)
			i++
		}
		w.WriteString("\r\nContent-Length: 0\r\n\r\n")
		out = append(out, append([]byte{}, w.Bytes()...))
	}
	return out
}

// largeCuts: a handful of cuts spread over a large input plus cuts around the end.
func largeCuts(n int) []int {
	var c []int
	for _, f := range []int{1, 13, 14, 200, 201, n / 3, n/3 + 1, n / 2, n - 40, n - 3, n - 2, n - 1} {
		if f > 0 && f < n {
			c = append(c, f)
		}
	}
	return normSchedule(c, n)
}

// hostileLarge builds 65,535-byte inputs made of patterns that stress look-ahead,
// folding, quoting and number accumulation; plus a deterministic pseudo-random soup.
func hostileLarge() [][]byte {
	const n = 65535
	rep := func(p string) []byte { return bytes.Repeat([]byte(p), n/len(p)+1)[:n] }
	out := [][]byte{
		rep("\r\n "), rep("\r\n\t \r"), rep("\""), rep("\\"), rep("\\\""), rep("9"), rep("a"), rep(";"), rep(","), rep("<"),
		rep("a=b;"), rep("a: b\r\n"), rep("m: <sip:a>,\r\n "), rep("<sip:a>;q=0.5, "), rep(":"), rep("1."), rep("1:"), rep("\r"), rep("\n"),
		append([]byte("SIP/2.0 200 OK\r\nl: 70000\r\n\r\n"), rep("b")...)[:n],
		append([]byte("INVITE sip:a SIP/2.0\r\nFrom: \""), rep("x\\\"")...)[:n],
		append([]byte("sip:"), rep("u;x?y:")...)[:n],
	}
	x := uint32(12345)
	soup := make([]byte, n)
	for i := range soup {
		x = x*1664525 + 1013904223
		soup[i] = sipAlphabet[int(x>>16)%len(sipAlphabet)]
	}
	return append(out, soup)
}
