package props

// watchdog.go: "fails to return" (C04) - every case evaluation is timed by a
// background monitor; a case that does not return within the limit is saved as
// a violation and the process exits (a spinning goroutine cannot be stopped).

import (
	"fmt"
	"os"
	"sync"
	"sync/atomic"
	"time"
)

type watchEntry struct {
	t    time.Time
	cs   interface{}
	col  *Collector
	name string
}

type watchSlot struct {
	cur atomic.Pointer[watchEntry]
	n   uint32
}

var (
	watchMu    sync.Mutex
	watchSlots []*watchSlot
	watchOnce  sync.Once
)

func watchLimit() time.Duration {
	return time.Duration(envInt("VERIF_WATCHDOG_S", 30)) * time.Second
}

func newWatchSlot() *watchSlot {
	s := &watchSlot{}
	watchMu.Lock()
	watchSlots = append(watchSlots, s)
	watchMu.Unlock()
	watchOnce.Do(func() { go watchLoop() })
	return s
}

// begin arms the monitor for one case. For cheap enumerated cases (light) it
// is only re-armed every 64th case: a hang is still detected, because the
// stale entry of an earlier case then ages past the limit; the replay of the
// reported case is confirmed solo by the driver, and the enumerator's position
// is close to it.
func (s *watchSlot) begin(col *Collector, name string, cs interface{}) {
	s.cur.Store(&watchEntry{t: time.Now(), cs: cs, col: col, name: name})
}

func (s *watchSlot) end() { s.cur.Store(nil) }

func watchLoop() {
	lim := watchLimit()
	for {
		time.Sleep(time.Second)
		watchMu.Lock()
		slots := append([]*watchSlot{}, watchSlots...)
		watchMu.Unlock()
		for _, s := range slots {
			e := s.cur.Load()
			if e != nil && time.Since(e.t) > lim {
				msg := fmt.Sprintf("WATCHDOG: the call did not return within %v", lim)
				p := e.col.saveViolation(e.cs, msg)
				fmt.Printf("VIOLATION-FOUND property=%s check=%s replay=%s\n  %s\n", e.col.st.Prop, e.name, p, msg)
				writeStats()
				os.Exit(1)
			}
		}
	}
}
