package props

import "testing"

func TestC03Rapid(t *testing.T) { C03Prem.RunRapid(t) }
func TestC03Scope(t *testing.T) { runScopes(t, C03Scope, c03Scopes(envInt("VERIF_DEPTH", 0))) }

func TestC03Large(t *testing.T) {
	C03Large.RunCases(t, "constructed 20,000 / 40,000 / 65,535-byte messages (long body, many headers, one long folded header) cut at ~100 positions (around 2^8..2^15, every 997 bytes, the last three)", true, enumLargePrem)
}
