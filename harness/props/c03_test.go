package props

import "testing"

func TestC03Rapid(t *testing.T) { C03Prem.RunRapid(t) }
func TestC03Scope(t *testing.T) { runScopes(t, C03Scope, c03Scopes(envInt("VERIF_DEPTH", 0))) }
