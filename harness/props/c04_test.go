package props

import "testing"

func TestC04StreamRapid(t *testing.T) { C04Sane.RunRapid(t) }
func TestC04APIRapid(t *testing.T)    { C04API.RunRapid(t) }
func TestC04IsoRapid(t *testing.T)    { C04Iso.RunRapid(t) }
func TestC04IsoAPIRapid(t *testing.T) { C04IsoAPI.RunRapid(t) }

func TestC04Scope(t *testing.T) {
	d := envInt("VERIF_DEPTH", 0)
	runScopes(t, C04Scope, append(scopes(d), msgScopes(d)...))
}

func TestC04Enum(t *testing.T) {
	// lookups on all short names are part of C16's enumeration too; here: no panic
	maxLen := envInt("VERIF_C04_MAXLEN", 3)
	C04Lookup.RunShards(t, "GetHdrType/GetMethodNo return on all byte strings of length 0..3", maxLen >= 3, 64,
		func(s int, emit func(CaseName) bool) { enumShort(maxLen, s, 64, emit) })
	// IPv6 text over a small alphabet
	alpha := []string{":", "1", "f", "]", ".", "x"}
	n := envInt("VERIF_C04_IP6LEN", 9)
	for _, pre := range []string{"", "["} {
		sc := Scope{Cfg: Cfg{Kind: "ip6"}, Prefix: pre, Alphabet: alpha, MaxLen: n}
		var jobs []func(emit func(CaseText) bool)
		for sh := 0; sh < sc.NShards(); sh++ {
			sh := sh
			jobs = append(jobs, func(emit func(CaseText) bool) {
				sc.Produce(sh, func(b []byte) bool { return emit(CaseText{S: append(B{}, b...)}) })
			})
		}
		C04IP6.RunJobs(t, []string{sc.Desc()}, jobs)
	}
}
