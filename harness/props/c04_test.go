package props

import "testing"

func TestC04StreamRapid(t *testing.T) { C04Sane.RunRapid(t) }
func TestC04APIRapid(t *testing.T)    { C04API.RunRapid(t) }
func TestC04IsoRapid(t *testing.T)    { C04Iso.RunRapid(t) }
func TestC04IsoAPIRapid(t *testing.T) { C04IsoAPI.RunRapid(t) }

func TestC04Scope(t *testing.T) {
	d := envInt("VERIF_DEPTH", 0)
	runScopes(t, C04Scope, append(scopes(d), msgScopes(d)...))
}

func TestC04Enum(t *testing.T) {
	// lookups on all short names are part of C16's enumeration too; here: no panic
	maxLen := envInt("VERIF_C04_MAXLEN", 3)
	C04Lookup.RunShards(t, "GetHdrType/GetMethodNo return on all byte strings of length 0..3", maxLen >= 3, 64,
		func(s int, emit func(CaseName) bool) { enumShort(maxLen, s, 64, emit) })
	// IPv6 text over a small alphabet
	alpha := []string{":", "1", "f", "]", ".", "x"}
	n := envInt("VERIF_C04_IP6LEN", 9)
	for _, pre := range []string{"", "["} {
		sc := Scope{Cfg: Cfg{Kind: "ip6"}, Prefix: pre, Alphabet: alpha, MaxLen: n}
		var jobs []func(emit func(CaseText) bool)
		for sh := 0; sh < sc.NShards(); sh++ {
			sh := sh
			jobs = append(jobs, func(emit func(CaseText) bool) {
				sc.Produce(sh, func(b []byte) bool { return emit(CaseText{S: append(B{}, b...)}) })
			})
		}
		C04IP6.RunJobs(t, []string{sc.Desc()}, jobs)
	}
}

// TestC04Large: every parser kind on 65,535-byte hostile inputs, one-shot, from an offset near
// the end and under a sparse schedule; all one-shot API functions on the same inputs.
func TestC04Large(t *testing.T) {
	var jobs []func(emit func(CaseSane) bool)
	for _, in := range hostileLarge() {
		in := in
		for _, k := range allKinds {
			k := k
			jobs = append(jobs, func(emit func(CaseSane) bool) {
				cfg := scopeCfg(k)
				if k == KTokParam {
					cfg.Flags = 0x14
				}
				emit(CaseSane{Cfg: cfg, Buf: in, Class: "in:large"})
				emit(CaseSane{Cfg: cfg, Buf: in, Offs: len(in) - 3, Class: "in:large"})
				emit(CaseSane{Cfg: withCaps(cfg, 2, 1, 1), Buf: in, Sched: largeCuts(len(in)), Class: "in:large"})
			})
		}
	}
	C04Sane.RunJobs(t, nil, jobs)
	var ajobs []func(emit func(CaseAPI) bool)
	for _, in := range hostileLarge() {
		in := in
		ajobs = append(ajobs, func(emit func(CaseAPI) bool) {
			emit(CaseAPI{A: in, Bb: in[:4000], Flags: 0, N1: 65000, N2: 535})
			emit(CaseAPI{A: in[:300], Bb: in, Flags: 63, N1: 0, N2: 65535})
		})
	}
	C04API.RunJobs(t, nil, ajobs)
}
