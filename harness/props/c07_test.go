package props

import (
	"fmt"
	"testing"
)

func TestC07Rapid(t *testing.T) { C07Block.RunRapid(t) }
func TestC08Rapid(t *testing.T) { C08FL.RunRapid(t) }
func TestC08Enum(t *testing.T) {
	C08FL.RunCases(t, "status lines: 1000 codes x 3 terminators x 4 reasons x 4 version casings", true, enumStatusLines)
	C08FL.RunCases(t, "request lines: 14 table methods x (exact, lower, +X, -1, every single case flip) x 3 terminators x {ParseFLine, ParseSIPMsg}", true, enumRequestLines)
	C08FL.RunCases(t, "status-line prefix: every byte value at each of the first 8 positions of 3 templates (reply only for the letter-case variants of SIP/2.0 SP)", true, enumPrefixBytes)
	C08FL.RunCases(t, "request near-misses (11 kinds) x 5 method tokens (3..18 bytes) x 2 terminators x {ParseFLine, ParseSIPMsg} x every two-step cut of the line", true, enumNearMissCuts)
}

func TestC05Rapid(t *testing.T) { C05Contain.RunRapid(t) }
func TestC05Corpus(t *testing.T) {
	var jobs []func(emit func(CaseContain) bool)
	for _, m := range corpusMsgs() {
		m := m
		jobs = append(jobs, func(emit func(CaseContain) bool) {
			for fl := uint(0); fl < 4; fl++ {
				emit(CaseContain{Buf: m, Flags: fl, Class: "in:corpus"})
				emit(CaseContain{Pre: B("\r\nab"), Buf: m, Flags: fl, Sched: []int{5, 20, 21, 22, 60, 61, 100}, Class: "in:corpus"})
			}
		})
	}
	C05Contain.RunJobs(t, nil, jobs)
}

func TestC06FrameRapid(t *testing.T) { C06Frame.RunRapid(t) }
func TestC06PipeRapid(t *testing.T)  { C06Pipe.RunRapid(t) }

// TestC06Grid: every flag set x every Content-Length relation on fixed header blocks.
func TestC06Grid(t *testing.T) {
	heads := []MsgSpec{}
	for _, fl := range []FLSpec{{Req: true, Method: B("INVITE"), URI: B("sip:a@b"), Ver: B("SIP/2.0"), EOL: B("\r\n")},
		{Ver: B("SIP/2.0"), Code: B("200"), Reason: B("OK"), EOL: B("\n")}} {
		for _, eol := range []string{"\r\n", "\n", "\r"} {
			heads = append(heads, MsgSpec{FL: fl, Blank: B(eol), Hdrs: []HdrSpec{
				{Name: B("Via"), PostLWS: B(" "), Val: B("SIP/2.0/UDP h;branch=z9hG4bKx"), EOL: B(eol)},
				{Name: B("From"), PostLWS: B(" "), Val: B("<sip:a@b>;tag=1"), EOL: B(eol)},
				{Name: B("Call-ID"), Val: B("c1"), EOL: B(eol)}}})
		}
	}
	C06Frame.RunCases(t, "6 header blocks x flags 0..7 x available 0..40 x Content-Length {absent, 0..avail+3, 2^24, 2^24+1} x name {Content-Length, l} x position", true,
		func(emit func(CaseFrame) bool) {
			for _, h := range heads {
				for fl := uint(0); fl < 8; fl++ {
					for avail := 0; avail <= 40; avail += 1 + avail/8 {
						cls := []int{-1, 1 << 24, 1<<24 + 1}
						for cl := 0; cl <= avail+3; cl++ {
							cls = append(cls, cl)
						}
						for _, cl := range cls {
							for pos := 0; pos <= 3; pos += 3 {
								c := CaseFrame{Head: h, CL: cl, CLName: B("Content-Length"), CLPos: pos, Flags: fl,
									Avail: B("v=0\r\nSIP/2.0 200 OK\r\n\r\nINVITE a b\r\n\r\n....")[:avail]}
								if cl%2 == 1 {
									c.CLName = B("L")
								}
								if !emit(c) {
									return
								}
							}
						}
					}
				}
			}
		})
}

func TestC07Enum(t *testing.T) {
	allCuts := envInt("VERIF_DEPTH", 0) > 0
	what := "one-shot and one cut in the middle"
	if allCuts {
		what = "every single cut"
	}
	C07Block.RunShards(t, "every small header block: one header over name kind x blank before ':' x whitespace/fold after it x value shape x trailing whitespace x CRLF/LF/CR, two headers over a reduced product; x blank-line kind x header capacity {64, 1, none} x {hb nil, typed}; "+what,
		true, 32, func(s int, emit func(CaseHdrBlock) bool) { enumHdrBlocks(allCuts, s, 32, emit) })
}

func TestC09Rapid(t *testing.T) { C09NA.RunRapid(t) }

func TestC09Enum(t *testing.T) {
	allCuts := envInt("VERIF_DEPTH", 0) > 0
	what := "one-shot and one cut in the middle of the block"
	if allCuts {
		what = "every single cut of the block"
	}
	C09NA.RunShards(t, "every small name-addr spec (4 display forms x 3 blank kinds, bracketed or bare URI, 0..2 of 7 parameters with every blank placement) x From/To/Contact/PAI x {value parser, ParseHeaders} x blanks around the value x CRLF/LF x contact capacity; two-value headers with blanks around the comma; Contact: *; "+what,
		true, 32, func(s int, emit func(CaseNA) bool) { enumNA(allCuts, s, 32, emit) })
}

func TestC10Rapid(t *testing.T) { C10Num.RunRapid(t) }
func TestC10Enum(t *testing.T) {
	n := envInt("VERIF_C10_DIGITS", 6)
	for _, pos := range []string{"port_hostport", "port_userhost", "port_params", "clen", "cseq"} {
		pos := pos
		C10Num.RunShards(t, fmt.Sprintf("%s: all digit strings of length 1..%d", pos, n), true, 32, func(s int, emit func(CaseNum) bool) {
			enumDigitStrings(n, s, 32, func(d B) bool { return emit(CaseNum{Pos: pos, Digits: d}) })
		})
	}
	// every limit followed by 1..2 more digits, with and without leading zeros ("the prefix is exactly the limit")
	C10Num.RunCases(t, "every range limit (255, 65535, 2^24, 2^32-1, 2^64-1 and neighbours) followed by every 1-2 digit suffix, with 0..2 leading zeros, in every position", true, func(emit func(CaseNum) bool) {
		for _, b := range []string{"255", "256", "65534", "65535", "65536", "16777215", "16777216", "16777217", "4294967294", "4294967295", "4294967296",
			"18446744073709551614", "18446744073709551615", "18446744073709551616", "999999999", "1000000000"} {
			for suf := 0; suf < 110; suf++ {
				tail := fmt.Sprintf("%d", suf)
				if suf >= 10 {
					tail = fmt.Sprintf("%02d", suf-10)
				}
				for z := 0; z <= 2; z++ {
					ds := "00"[:z] + b + tail
					for _, pos := range numPositions {
						if pos == "q" {
							continue
						}
						if !emit(CaseNum{Pos: pos, Digits: B(ds)}) {
							return
						}
					}
				}
			}
		}
	})
	// the neighbourhood of every boundary in every position, with every cut
	C10Num.RunCases(t, "every listed boundary +-20 in every numeric position, one-shot and cut after every digit", true, func(emit func(CaseNum) bool) {
		for _, b := range numBoundaries {
			for dlt := -20; dlt <= 20; dlt++ {
				ds := addSmall(b, dlt)
				for _, pos := range numPositions {
					if pos == "q" {
						continue
					}
					for cut := 0; cut < len(ds); cut++ {
						if !emit(CaseNum{Pos: pos, Digits: B(ds), Cut: cut}) {
							return
						}
					}
				}
			}
		}
	})
	// q: every integer part 0..20 x every fraction of 0..4 digits
	C10Num.RunCases(t, "q: integer part 0..20 and 2^64+{0,1} x no dot / dot + every fraction of 0..4 digits", true, func(emit func(CaseNum) bool) {
		ints := []string{"18446744073709551616", "18446744073709551617", "00", "01", "000000000000000000001"}
		for i := 0; i <= 20; i++ {
			ints = append(ints, fmt.Sprintf("%d", i))
		}
		for _, ip := range ints {
			if !emit(CaseNum{Pos: "q", Digits: B(ip)}) {
				return
			}
			for l := 0; l <= 4; l++ {
				tot := 1
				for k := 0; k < l; k++ {
					tot *= 10
				}
				for x := 0; x < tot; x++ {
					fr := ""
					if l > 0 {
						fr = fmt.Sprintf("%0*d", l, x)
					}
					if !emit(CaseNum{Pos: "q", Digits: B(ip), Dot: true, Frac: B(fr)}) {
						return
					}
				}
			}
		}
	})
}

func TestC17Rapid(t *testing.T)    { C17List.RunRapid(t) }
func TestC17ViaRapid(t *testing.T) { C17Via.RunRapid(t) }

func TestC19Rapid(t *testing.T) { C19Sig.RunRapid(t) }
