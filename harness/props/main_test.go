package props

import (
	"encoding/binary"
	"fmt"
	"os"
	"path/filepath"
	"sort"
	"strings"
	"testing"
)

func TestMain(m *testing.M) {
	loadKnown()
	code := m.Run()
	writeStats()
	os.Exit(code)
}

// TestReplay re-runs saved cases: VERIF_REPLAY_FILES is a ':'-separated list
// of files or directories.
func TestReplay(t *testing.T) {
	spec := os.Getenv("VERIF_REPLAY_FILES")
	if spec == "" {
		t.Skip("no VERIF_REPLAY_FILES")
	}
	var files []string
	for _, p := range strings.Split(spec, ":") {
		if p == "" {
			continue
		}
		st, err := os.Stat(p)
		if err != nil {
			continue
		}
		if st.IsDir() {
			m, _ := filepath.Glob(filepath.Join(p, "*.json"))
			files = append(files, m...)
		} else {
			files = append(files, p)
		}
	}
	sort.Strings(files)
	for _, f := range files {
		v, key, msg, err := replayOne(f)
		if err != nil {
			t.Errorf("replay %s: %v", f, err)
			fmt.Printf("REPLAY-ERROR file=%s err=%v\n", f, err)
			continue
		}
		switch {
		case v && isKnown(key):
			fmt.Printf("REPLAY-KNOWN file=%s key=%s\n", f, key)
			c := collFor(f)
			if c != nil {
				c.mu.Lock()
				c.st.Excluded[key]++
				c.mu.Unlock()
			}
		case v:
			fmt.Printf("VIOLATION-FOUND property=%s check=replay replay=%s\n", propOf(f), f)
			fmt.Printf("  msg: %s\n", firstLine(msg))
			c := collFor(f)
			if c != nil {
				c.mu.Lock()
				c.st.Violations = append(c.st.Violations, ViolRec{Check: c.st.Check, Msg: msg, Replay: f})
				c.mu.Unlock()
			}
			t.Errorf("replay %s still violates: %s", f, msg)
		default:
			fmt.Printf("REPLAY-OK file=%s\n", f)
		}
	}
}

func firstLine(s string) string {
	if i := strings.IndexByte(s, '\n'); i >= 0 {
		return s[:i]
	}
	return s
}

func propOf(f string) string { return filepath.Base(filepath.Dir(f)) }

func collFor(f string) *Collector {
	collMu.Lock()
	defer collMu.Unlock()
	// the collector was created by replayOne under the check name; find by property
	p := propOf(f)
	for _, c := range collectors {
		if c.st.Prop == p {
			return c
		}
	}
	return nil
}

// TestMergeHashes counts the distinct 64-bit hashes in the files of VERIF_HASH_FILES (used by the
// driver when the shards produced too many hashes to merge in the driver itself).
func TestMergeHashes(t *testing.T) {
	spec := os.Getenv("VERIF_HASH_FILES")
	if spec == "" {
		t.Skip("no VERIF_HASH_FILES")
	}
	var all []uint64
	for _, f := range strings.Split(spec, ":") {
		d, err := os.ReadFile(f)
		if err != nil {
			continue
		}
		for i := 0; i+8 <= len(d); i += 8 {
			all = append(all, binary.LittleEndian.Uint64(d[i:]))
		}
	}
	sort.Slice(all, func(i, j int) bool { return all[i] < all[j] })
	n := 0
	for i := range all {
		if i == 0 || all[i] != all[i-1] {
			n++
		}
	}
	fmt.Printf("DISTINCT %d\n", n)
}
