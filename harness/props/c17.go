package props

// C17: parameter-list parsing (token params, URI params, URI headers) is faithful.

import (
	"bytes"
	"fmt"

	"github.com/intuitivelabs/sipsp"
	"pgregory.net/rapid"
)

// CaseTokList: a well-formed list by construction, optionally with one illegal byte injected.
type CaseTokList struct {
	L      TokListSpec `json:"list"`
	Pre    B           `json:"pre"`    // bytes before the list (start offset)
	Inject int         `json:"inject"` // -1 none; else index into the token-byte positions where Bad is inserted
	Bad    B           `json:"bad"`    // the illegal byte (1 byte)
	Entry  string      `json:"entry"`  // "tok" (ParseTokenParam loop) | "uriparams" | "urihdrs"
	PCap   int         `json:"p_cap"`
	Cut    int         `json:"cut"` // > 0: the buffer first ends after this many bytes of the list (then the rest arrives)
}

type tokExp struct {
	name, val     []byte
	nameAt, valAt int
	contentEnd    int // end of the item's content (value end / after '=' / name end)
	limit         int // position of the separator / terminator that ends the item
	hasVal        bool
}

// renderTokList renders the list and returns the expectation per non-empty item,
// the offset of the terminator, the token-byte positions and the total text.
func renderTokList(l TokListSpec, at int) (txt []byte, items []tokExp, termAt int, tokPos []int) {
	sep, term := tokSepTerm(sipsp.POptFlags(l.Flags))
	var w bytes.Buffer
	pos := func() int { return at + w.Len() }
	for i, it := range l.Items {
		if i > 0 {
			w.WriteByte(sep)
		}
		w.Write(it.WS0)
		if len(it.Name) == 0 {
			continue
		}
		var e tokExp
		e.nameAt = pos()
		e.name = it.Name
		for k := range it.Name {
			tokPos = append(tokPos, e.nameAt+k)
		}
		w.Write(it.Name)
		e.contentEnd = pos()
		w.Write(it.WS1)
		if it.HasEq {
			w.WriteByte('=')
			e.contentEnd = pos()
			w.Write(it.WS2)
			e.valAt = pos()
			e.val = it.Val
			if len(it.Val) > 0 {
				e.hasVal = true
				if it.Val[0] != '"' {
					for k := range it.Val {
						tokPos = append(tokPos, e.valAt+k)
					}
				}
			}
			w.Write(it.Val)
			if len(it.Val) > 0 {
				e.contentEnd = pos()
			}
			w.Write(it.WS3)
		}
		e.limit = pos()
		items = append(items, e)
	}
	termAt = pos()
	switch l.Term {
	case "term":
		if term != 0 {
			w.WriteByte(term)
		}
		w.Write(l.Tail)
	case "sp":
		w.Write(l.spws())
		w.Write(l.Tail)
	case "eoh":
		w.WriteString("\r\n")
		w.Write(l.Tail)
	}
	return w.Bytes(), items, termAt, tokPos
}

func refURIParamType(n []byte) sipsp.URIParamF {
	switch asciiLower(n) {
	case "transport":
		return sipsp.URIParamTransportF
	case "user":
		return sipsp.URIParamUserF
	case "method":
		return sipsp.URIParamMethodF
	case "ttl":
		return sipsp.URIParamTTLF
	case "maddr":
		return sipsp.URIParamMaddrF
	case "lr":
		return sipsp.URIParamLRF
	}
	return sipsp.URIParamOtherF
}

func cmpTok(what string, buf []byte, p *sipsp.PTokParam, e tokExp) string {
	if int(p.Name.Offs) != e.nameAt || !bytes.Equal(p.Name.Get(buf), e.name) {
		return fmt.Sprintf("%s: Name = (%d) %q, want (%d) %q", what, p.Name.Offs, p.Name.Get(buf), e.nameAt, e.name)
	}
	if !e.hasVal {
		if !p.Val.Empty() {
			return fmt.Sprintf("%s: Val = %q, want empty", what, p.Val.Get(buf))
		}
	} else if int(p.Val.Offs) != e.valAt || !bytes.Equal(p.Val.Get(buf), e.val) {
		return fmt.Sprintf("%s: Val = (%d) %q, want (%d) %q", what, p.Val.Offs, p.Val.Get(buf), e.valAt, e.val)
	}
	// the whole-parameter field is not part of the statement: it only has to start at the
	// name, hold name and value and stay inside the item (before the next separator/terminator)
	a := sp(p.All)
	if a.a != e.nameAt || a.b < e.nameAt+len(e.name) || (e.hasVal && a.b < e.valAt+len(e.val)) || a.b > e.limit {
		return fmt.Sprintf("%s: All = [%d,%d) %q does not hold exactly this parameter (name at %d, content end %d, item ends at %d)", what, a.a, a.b, p.All.Get(buf), e.nameAt, e.contentEnd, e.limit)
	}
	return ""
}

func evalTokList(c CaseTokList) Result {
	l := c.L
	flags := sipsp.POptFlags(l.Flags) &^ sipsp.POptInputEndF
	start := len(c.Pre)
	txt, items, termAt, tokPos := renderTokList(l, start)
	buf := append(append([]byte{}, c.Pre...), txt...)
	injAt := -1
	if c.Inject >= 0 && len(tokPos) > 0 && len(c.Bad) == 1 {
		injAt = tokPos[c.Inject%len(tokPos)]
		nb := append([]byte{}, buf[:injAt]...)
		nb = append(nb, c.Bad[0])
		buf = append(nb, buf[injAt:]...)
	}
	pflags := flags
	if l.Term == "end" {
		pflags |= sipsp.POptInputEndF
	}
	classes := []string{"entry:" + c.Entry, "term:" + l.Term}
	nt := len(items) >= 2
	for _, it := range l.Items {
		if len(it.Val) > 0 && it.Val[0] == '"' {
			nt = true
			classes = append(classes, "quoted")
		}
		if len(it.WS0)+len(it.WS1)+len(it.WS2)+len(it.WS3) > 0 {
			nt = true
		}
		if len(it.Name) == 0 {
			classes = append(classes, "empty-item")
		}
	}
	fail := func(format string, a ...interface{}) Result {
		return viol(format+"\nflags=%#x input=%s", append(a, uint(pflags), B(buf))...).with(true, classes...)
	}
	// expected final verdict
	wantEnd := sipsp.ErrHdrEOH
	wantOffs := len(buf)
	switch l.Term {
	case "term":
		wantEnd, wantOffs = sipsp.ErrHdrOk, termAt
	case "sp":
		// "the separator is the whitespace before the token": the last whitespace byte in front of it
		wantEnd, wantOffs = sipsp.ErrHdrOk, termAt+len(l.spws())-1
		if len(l.spws()) > 1 {
			classes = append(classes, "sp-term:multi-ws")
		}
	case "eoh":
		wantOffs = termAt + 2
	}
	if injAt >= 0 {
		classes = append(classes, "injected")
	}
	cutAt := 0
	if c.Cut > 0 {
		cutAt = start + c.Cut
		classes = append(classes, "chunked")
	}
	switch c.Entry {
	case "tok":
		offs := start
		for i := 0; ; i++ {
			var p sipsp.PTokParam
			o, e := offs, sipsp.ErrHdrMoreBytes
			if cutAt > offs && cutAt < len(buf) {
				o, e = sipsp.ParseTokenParam(buf[:cutAt:cutAt], offs, &p, pflags&^sipsp.POptInputEndF)
				if e != sipsp.ErrHdrMoreBytes {
					p.Reset() // definitive on the short buffer: this parameter is parsed again from scratch below
					o, e = offs, sipsp.ErrHdrMoreBytes
				}
			}
			if e == sipsp.ErrHdrMoreBytes {
				o, e = sipsp.ParseTokenParam(buf, o, &p, pflags)
			}
			if injAt >= 0 {
				// the illegal byte must be rejected where it is, not absorbed
				if isErrVerdict(e) {
					if o != injAt {
						return fail("illegal byte %s injected at %d: error %v reported at offset %d", c.Bad, injAt, e, o)
					}
					return ok(true, classes...)
				}
				if e == sipsp.ErrHdrMoreValues && o <= injAt {
					offs = o
					continue
				}
				return fail("illegal byte %s injected at %d was not rejected: call %d returned (%d, %v)", c.Bad, injAt, i, o, e)
			}
			if len(items) == 0 {
				if e != wantEnd || o != wantOffs || !p.Empty() {
					return fail("empty list: got (%d, %v) Empty=%v, want (%d, %v) and an empty parameter", o, e, p.Empty(), wantOffs, wantEnd)
				}
				return ok(false, classes...)
			}
			if i >= len(items) {
				return fail("more parameters reported than the %d in the list", len(items))
			}
			if m := cmpTok(fmt.Sprintf("parameter %d of %d", i, len(items)), buf, &p, items[i]); m != "" {
				return fail("%s (call returned (%d, %v))", m, o, e)
			}
			if i < len(items)-1 {
				if e != sipsp.ErrHdrMoreValues || o != items[i+1].nameAt {
					return fail("parameter %d of %d: got (%d, %v), want (%d, more-values): the start of the next parameter", i, len(items), o, e, items[i+1].nameAt)
				}
				offs = o
				continue
			}
			if e != wantEnd || o != wantOffs {
				return fail("last parameter (%d of %d): got (%d, %v), want (%d, %v)", i, len(items), o, e, wantOffs, wantEnd)
			}
			return ok(nt, classes...)
		}
	case "uriparams", "urihdrs":
		var n, vno int
		var o int
		var e sipsp.ErrorHdr
		var up sipsp.URIParamsLst
		var uh sipsp.URIHdrsLst
		get := func(i int) *sipsp.PTokParam { return nil }
		stored := 0
		if c.Entry == "uriparams" {
			if c.PCap >= 0 {
				up.Init(make([]sipsp.URIParam, c.PCap))
			}
			o, e = start, sipsp.ErrHdrMoreBytes
			if cutAt > start && cutAt < len(buf) {
				var v1 int
				o, v1, e = sipsp.ParseAllURIParams(buf[:cutAt:cutAt], start, &up, pflags&^sipsp.POptInputEndF)
				vno += v1
				if e != sipsp.ErrHdrMoreBytes {
					up.Reset()
					vno, o, e = 0, start, sipsp.ErrHdrMoreBytes
				}
			}
			var v2 int
			o, v2, e = sipsp.ParseAllURIParams(buf, o, &up, pflags)
			vno += v2
			n, stored = up.N, up.PNo()
			get = func(i int) *sipsp.PTokParam { return &up.Params[i].Param }
		} else {
			if c.PCap >= 0 {
				uh.Init(make([]sipsp.URIHdr, c.PCap))
			}
			o, e = start, sipsp.ErrHdrMoreBytes
			if cutAt > start && cutAt < len(buf) {
				var v1 int
				o, v1, e = sipsp.ParseAllURIHdrs(buf[:cutAt:cutAt], start, &uh, pflags&^sipsp.POptInputEndF)
				vno += v1
				if e != sipsp.ErrHdrMoreBytes {
					uh.Reset()
					vno, o, e = 0, start, sipsp.ErrHdrMoreBytes
				}
			}
			var v2 int
			o, v2, e = sipsp.ParseAllURIHdrs(buf, o, &uh, pflags)
			vno += v2
			n, stored = uh.N, uh.HNo()
			get = func(i int) *sipsp.PTokParam { return (*sipsp.PTokParam)(&uh.Hdrs[i]) }
		}
		if injAt >= 0 {
			if !isErrVerdict(e) || o != injAt {
				return fail("illegal byte %s injected at %d: list parser returned (%d, %v)", c.Bad, injAt, o, e)
			}
			return ok(true, classes...)
		}
		if e != wantEnd || o != wantOffs {
			return fail("list parser returned (%d, %v), want (%d, %v)", o, e, wantOffs, wantEnd)
		}
		if n != len(items) || vno != len(items) {
			r := fail("list parser counted N=%d (returned count %d), the list has %d parameters", n, vno, len(items))
			if len(items) == 0 && n == 1 && vno == 1 && (stored == 0 || get(0).Empty()) {
				// known finding: an empty / separator-only list is counted as one (empty) parameter
				r = r.withKey("C17/empty-list-counted-as-one")
			}
			return r
		}
		var types sipsp.URIParamF
		for i, it := range items {
			types |= refURIParamType(it.name)
			if i < stored {
				if m := cmpTok(fmt.Sprintf("stored parameter %d of %d", i, len(items)), buf, get(i), it); m != "" {
					return fail("%s", m)
				}
				if c.Entry == "uriparams" && up.Params[i].T != refURIParamType(it.name) {
					return fail("parameter %d (%q): type %#x, want %#x", i, it.name, uint(up.Params[i].T), uint(refURIParamType(it.name)))
				}
			}
		}
		if c.Entry == "uriparams" && up.Types != types {
			return fail("Types = %#x, want %#x", uint(up.Types), uint(types))
		}
		if c.Entry == "uriparams" {
			if up.Empty() != (up.N == 0) || up.More() != (up.N > len(up.Params)) || up.PNo() != minInt(up.N, len(up.Params)) {
				return fail("URIParamsLst predicates: N=%d capacity=%d Empty()=%v More()=%v PNo()=%d", up.N, len(up.Params), up.Empty(), up.More(), up.PNo())
			}
		} else if uh.Empty() != (uh.N == 0) || uh.More() != (uh.N > len(uh.Hdrs)) || uh.HNo() != minInt(uh.N, len(uh.Hdrs)) {
			return fail("URIHdrsLst predicates: N=%d capacity=%d Empty()=%v More()=%v HNo()=%d", uh.N, len(uh.Hdrs), uh.Empty(), uh.More(), uh.HNo())
		}
		wantStored := len(items)
		if c.PCap < 0 {
			wantStored = 0
		} else if wantStored > c.PCap {
			wantStored = c.PCap
		}
		if stored != wantStored {
			return fail("stored %d parameters, want %d (capacity %d, %d in the list)", stored, wantStored, c.PCap, len(items))
		}
		return ok(nt, classes...)
	}
	return Result{Skip: true}
}

var illegalBytes = []byte{'@', '<', '>', '{', '}', '|', '^', '`', '#', '\\', 0x7f, 0x80, 0xff, 0x00, 0x01, 0x1f}

// normaliseTokList applies the side conditions that make a drawn / enumerated list spec well formed for its
// flags and terminator (bytes inside the documented set for the mode, terminators only where they are defined,
// no whitespace that the whitespace-then-token terminator would take for the end of the list).
func normaliseTokList(l TokListSpec) TokListSpec {
	flags := l.Flags
	sep, term := tokSepTerm(sipsp.POptFlags(flags))
	pf := sipsp.POptFlags(flags)
	// keep every byte inside the documented character set for this mode
	clean := func(b B) B {
		var o B
		for _, ch := range b {
			if ch == sep || (term != 0 && ch == term) {
				continue
			}
			if ch == '&' && pf&sipsp.POptTokURIParamF == 0 {
				continue
			}
			if ch == '?' && pf&sipsp.POptTokURIParamF != 0 {
				continue
			}
			o = append(o, ch)
		}
		return o
	}
	for i := range l.Items {
		it := &l.Items[i]
		if len(it.Name) > 0 {
			it.Name = clean(it.Name)
			if len(it.Name) == 0 {
				it.Name = B("n")
			}
		}
		if len(it.Val) > 0 && it.Val[0] != '"' {
			it.Val = clean(it.Val)
		}
		if len(it.Name) == 0 {
			*it = TokItem{WS0: it.WS0}
		}
	}
	// side conditions of the terminators
	nonEmpty := -1
	for i := range l.Items {
		if len(l.Items[i].Name) > 0 {
			nonEmpty = i
		}
	}
	if l.Term == "sp" {
		// whitespace-then-token terminates only after a complete item
		l.Items = l.Items[:nonEmpty+1]
		if nonEmpty >= 0 {
			last := &l.Items[nonEmpty]
			if last.HasEq && len(last.Val) == 0 {
				last.Val = B("v")
			}
		} else {
			l.Term = "eoh"
		}
	}
	if l.Term == "term" && nonEmpty < 0 {
		l.Term = "eoh" // an empty list is only defined up to end of header / end of input
	}
	if l.Term == "sp" || l.Term == "eoh" {
		if len(l.Tail) == 0 || isLWSByte(l.Tail[0]) {
			l.Tail = B("X")
		}
		// the tail token must be a legal byte and not a separator
		l.Tail = B("X")
	}
	// whitespace that belongs to the terminator must not be ambiguous with SpTerm inside the list
	if pf&sipsp.POptTokSpTermF != 0 {
		for i := range l.Items {
			it := &l.Items[i]
			if len(it.Name) == 0 {
				it.WS0 = nil
				continue
			}
			// "name WS token" / "value WS token" would end the list: only allow WS that is followed by '=' or a separator
			if !it.HasEq {
				if i == len(l.Items)-1 {
					it.WS1 = nil
				}
			}
			if i == len(l.Items)-1 {
				it.WS3 = nil
				if !it.HasEq {
					it.WS1 = nil
				}
			}
		}
	}
	return l
}

func genCaseTokList(t *rapid.T) CaseTokList {
	c := CaseTokList{Inject: -1, PCap: -1}
	c.Entry = pick(t, "entry", "tok", "tok", "uriparams", "urihdrs")
	var flags uint
	switch c.Entry {
	case "tok":
		flags = genTokFlags(t)
	case "uriparams":
		flags = uint(pick(t, "upf", sipsp.POptTokURIParamF, sipsp.POptTokQmTermF, sipsp.POptTokSpTermF, sipsp.POptNoneF, sipsp.POptTokCommaTermF)) | uint(sipsp.POptParamSemiSepF)
		c.PCap = pick(t, "pcap", -1, 0, 1, 2, 3, 10, 16, 17, 33, 100, 256, 300)
	default:
		flags = uint(pick(t, "uhf", sipsp.POptNoneF, sipsp.POptTokSpTermF, sipsp.POptTokCommaTermF)) | uint(sipsp.POptParamAmpSepF|sipsp.POptTokURIHdrF)
		c.PCap = pick(t, "pcap", -1, 0, 1, 2, 3, 10)
	}
	flags &^= uint(sipsp.POptInputEndF)
	l := genTokList(t, flags)
	l = normaliseTokList(l)
	sep, term := tokSepTerm(sipsp.POptFlags(flags))
	pf := sipsp.POptFlags(flags)
	c.L = l
	c.Pre = genJunkPrefix(t)
	if rapid.IntRange(0, 2).Draw(t, "chunked") == 0 {
		c.Cut = rapid.IntRange(1, 60).Draw(t, "cut")
	}
	if rapid.IntRange(0, 4).Draw(t, "inject") == 0 {
		c.Inject = rapid.IntRange(0, 1000).Draw(t, "injpos")
		// bytes outside the documented set: always-illegal ones plus those that are
		// illegal in this mode only ('&' outside URI-parameter mode, ';' with the '&'
		// separator, ',' and '?' when they are neither separator nor terminator)
		bad := append([]byte{}, illegalBytes...)
		for _, ch := range []byte{'&', ';', ',', '?'} {
			if ch == sep || (term != 0 && ch == term) {
				continue
			}
			if ch == '&' && pf&sipsp.POptTokURIParamF != 0 {
				continue // allowed there
			}
			if ch == '?' && pf&sipsp.POptTokURIParamF == 0 {
				continue // allowed there
			}
			bad = append(bad, ch, ch)
		}
		c.Bad = B{bad[uniformIdx(t, "bad", len(bad))]}
		// the terminator byte where a parameter name has to start (nothing parsed yet): it is not a name byte in
		// this mode (',' never is, '?' is not in URI-parameter mode), so it is rejected there, not absorbed
		if term != 0 && (term == ',' || pf&sipsp.POptTokURIParamF != 0) && rapid.IntRange(0, 3).Draw(t, "termfirst") == 0 {
			c.Inject, c.Bad = 0, B{term}
		}
	}
	return c
}

var C17List = Register(&Check[CaseTokList]{Prop: "C17", Name: "C17.list", Gen: genCaseTokList, Eval: evalTokList})

// ---------- Via branch signature ----------

type CaseViaBr struct {
	Head B           `json:"head"` // sent-protocol and sent-by (no ';')
	L    TokListSpec `json:"list"` // ';'-separated, ',' or end terminated
	// NoParams: the Via body is the head alone (no ';' anywhere): nothing to extract
	NoParams bool `json:"no_params,omitempty"`
}

var C17Via = Register(&Check[CaseViaBr]{
	Prop: "C17", Name: "C17.viabr",
	Gen: func(t *rapid.T) CaseViaBr {
		flags := uint(sipsp.POptParamSemiSepF | sipsp.POptTokCommaTermF)
		l := genTokList(t, flags)
		for i := range l.Items {
			it := &l.Items[i]
			if len(it.Name) == 0 {
				continue
			}
			it.Name = bytes.ReplaceAll(it.Name, []byte("?"), nil)
			if len(it.Name) == 0 {
				it.Name = B("p")
			}
			if rapid.IntRange(0, 2).Draw(t, "isbranch") == 0 {
				it.Name = recase(t, "branch")
				it.HasEq = rapid.IntRange(0, 5).Draw(t, "breq") != 0
				switch weighted(t, "brval", 4, 3, 1, 1) {
				case 0:
					it.Val = append(recase(t, "z9hG4bK"), genFrom(t, "brv", "abcdefABCDEF0123456789-._*+/=:", 0, 24)...)
				case 1:
					it.Val = genFrom(t, "brv", "abcdefghijklmnopqrstuvwxyzABCDEF0123456789-._*+/:", 1, 24)
				case 2:
					it.Val = genTokQuoted(t)
				default:
					it.Val = nil
				}
				if !it.HasEq {
					it.Val = nil
				}
			}
			if len(it.Val) > 0 && it.Val[0] != '"' {
				it.Val = bytes.ReplaceAll(it.Val, []byte("?"), nil)
			}
		}
		l.Term = pick(t, "term", "term", "end", "end")
		l.Tail = B(pick(t, "tail", " SIP/2.0/UDP other;branch=z9hG4bKsecond", "x"))
		return CaseViaBr{Head: B(pick(t, "head", "SIP/2.0/UDP 1.2.3.4:5060", "SIP/2.0/TCP host", "SIP / 2.0 / UDP h", "x", "")), L: l,
			NoParams: rapid.IntRange(0, 15).Draw(t, "noparams") == 0}
	},
	Eval: func(c CaseViaBr) Result {
		txt, items, _, _ := renderTokList(c.L, 0)
		v := append(append(append([]byte{}, c.Head...), ';'), txt...)
		if c.NoParams {
			v = append(append([]byte{}, c.Head...), bytes.ReplaceAll(l2noSemi(txt), []byte(";"), nil)...)
			if sig, ln := sipsp.GetViaBrSig(v); sig != 0 || ln != 0 {
				return viol("GetViaBrSig(%s) = (%#x, %d) for a Via body without parameters", B(v), uint(sig), ln)
			}
			// ... and the parameters of a later comma-separated Via on the same line are not the first Via's (D20)
			if bytes.IndexByte(v, ',') < 0 {
				v2 := append(append([]byte{}, v...), ", SIP/2.0/UDP later.example;branch=z9hG4bK-x.y_z"...)
				if sig, ln := sipsp.GetViaBrSig(v2); sig != 0 || ln != 0 {
					return viol("GetViaBrSig(%s) = (%#x, %d): the first Via has no parameters, the branch is a later Via's", B(v2), uint(sig), ln)
				}
			}
			return ok(false, "no-params")
		}
		sig, ln := sipsp.GetViaBrSig(v)
		// reference: the first parameter named branch (case-insensitive)
		var wantSig sipsp.StrSigId
		wantLen := 0
		found := false
		for _, it := range items {
			if asciiLower(it.name) == "branch" {
				found = true
				if it.hasVal {
					canon := append([]byte("x;branch="), it.val...)
					wantSig, wantLen = sipsp.GetViaBrSig(canon)
				}
				break
			}
		}
		if sig != wantSig || ln != wantLen {
			return viol("GetViaBrSig(%s) = (%#x, %d); the branch parameter by construction gives (%#x, %d)", B(v), uint(sig), ln, uint(wantSig), wantLen)
		}
		// absolute part of the oracle: the length is that of the branch value without the RFC 3261 magic cookie
		// and the documented SigHas*F flags say which special characters that text contains; no branch, no signature
		absLen, absFlags := 0, sipsp.StrSigId(0)
		for _, it := range items {
			if !refTokChars(it.name) || (it.hasVal && (len(it.val) == 0 || it.val[0] != '"') && !refTokChars(it.val)) {
				// a byte outside the documented set before the branch: the list is rejected, nothing is extracted
				absLen, absFlags = 0, 0
				if sig != 0 || ln != 0 {
					return viol("GetViaBrSig(%s) = (%#x, %d) although the parameter %q=%q before the branch is not well formed", B(v), uint(sig), ln, it.name, it.val)
				}
				break
			}
			if asciiLower(it.name) == "branch" {
				if it.hasVal && (len(it.val) == 0 || it.val[0] != '"') {
					br := it.val
					if len(br) > 7 && asciiLower(br[:7]) == "z9hg4bk" {
						br = br[7:]
					}
					absLen, absFlags = len(br), refCharFlags(br)
				} else if it.hasVal {
					absLen, absFlags = ln, sig&charFlagMask // quoted: only the differential part applies
				}
				break
			}
		}
		if ln != absLen || sig&charFlagMask != absFlags {
			return viol("GetViaBrSig(%s) = (%#x, %d); the branch value has length %d and special-character flags %#x", B(v), uint(sig), ln, absLen, uint(absFlags))
		}
		if !found && (sig != 0 || ln != 0) {
			return viol("GetViaBrSig(%s) = (%#x, %d) without a branch parameter", B(v), uint(sig), ln)
		}
		return ok(found && len(items) >= 2, fmt.Sprintf("branch:%v", found))
	},
})

// refTokChars: every byte is in the documented name/value set of the non-URI mode (C17: letters, digits,
// the unreserved marks, '%', '[]/:+$' and '?').
func refTokChars(b []byte) bool {
	for _, c := range b {
		switch {
		case c >= '0' && c <= '9', c >= 'A' && c <= 'Z', c >= 'a' && c <= 'z':
		case bytes.IndexByte([]byte("-_.!~*'()%[]/:+$?"), c) >= 0:
		default:
			return false
		}
	}
	return true
}

// l2noSemi keeps only the bytes of a rendered list that cannot start a parameter (used for the "no ';' at all" case).
func l2noSemi(txt []byte) []byte {
	out := make([]byte, 0, len(txt))
	for _, c := range txt {
		if c != ';' && c != '"' && c != '\\' {
			out = append(out, c)
		}
	}
	return out
}

// enumTokSpecs enumerates small list specs exhaustively (the same model-by-construction oracle as the generated
// cases): lists of 0..2 items over {two names, empty item} x {no value, empty value, token, quoted value holding
// delimiters} x every placement of a blank in the four whitespace slots (three kinds of whitespace for one-item
// lists), 3-item lists without whitespace, under six option-flag sets, every terminator they define (three
// blank kinds for whitespace-then-token), and the entry points that take those flags. allCuts: every two-step cut
// of the text; otherwise one-shot and one cut in the middle.
func enumTokSpecs(allCuts bool, shard, nshards int, emit func(CaseTokList) bool) {
	names := []string{"a", "maddr"}
	vals := []struct {
		eq bool
		v  string
	}{{false, ""}, {true, ""}, {true, "v1"}, {true, "\"q;,&? =\\\"x\""}}
	items := func(wss []string) []TokItem {
		var out []TokItem
		for _, w0 := range wss {
			out = append(out, TokItem{WS0: B(w0)}) // empty item
		}
		for _, n := range names {
			for _, v := range vals {
				for _, w0 := range wss {
					for _, w1 := range wss {
						if !v.eq {
							out = append(out, TokItem{WS0: B(w0), Name: B(n), WS1: B(w1)})
							continue
						}
						for _, w2 := range wss {
							for _, w3 := range wss {
								out = append(out, TokItem{WS0: B(w0), Name: B(n), WS1: B(w1), HasEq: true, WS2: B(w2), Val: B(v.v), WS3: B(w3)})
							}
						}
					}
				}
			}
		}
		return out
	}
	one := items([]string{"", " ", "\r\n\t"})
	two := items([]string{"", " "})
	bare := items([]string{""})
	var lists [][]TokItem
	lists = append(lists, nil)
	for _, a := range one {
		lists = append(lists, []TokItem{a})
	}
	for _, a := range two {
		for _, b := range two {
			lists = append(lists, []TokItem{a, b})
		}
	}
	for _, a := range bare {
		for _, b := range bare {
			for _, c := range bare {
				lists = append(lists, []TokItem{a, b, c})
			}
		}
	}
	type mode struct {
		flags   uint
		entries []string
	}
	modes := []mode{
		{uint(sipsp.POptParamSemiSepF), []string{"tok", "uriparams"}},
		{uint(sipsp.POptTokURIParamF), []string{"tok", "uriparams"}},
		{uint(sipsp.POptTokURIHdrF | sipsp.POptParamAmpSepF), []string{"tok", "urihdrs"}},
		{uint(sipsp.POptParamSemiSepF | sipsp.POptTokCommaTermF), []string{"tok", "uriparams"}},
		{uint(sipsp.POptParamSemiSepF | sipsp.POptTokSpTermF), []string{"tok", "uriparams"}},
		{uint(sipsp.POptParamSemiSepF | sipsp.POptTokQmTermF), []string{"tok"}},
	}
	idx := 0
	for _, its := range lists {
		for _, m := range modes {
			_, term := tokSepTerm(sipsp.POptFlags(m.flags))
			type tv struct{ term, spws string }
			terms := []tv{{"eoh", ""}, {"end", ""}}
			if term != 0 {
				terms = append(terms, tv{"term", ""})
			}
			if sipsp.POptFlags(m.flags)&sipsp.POptTokSpTermF != 0 {
				terms = append(terms, tv{"sp", " "}, tv{"sp", "\t"}, tv{"sp", " \t"})
			}
			for _, tm := range terms {
				idx++
				if idx%nshards != shard {
					continue
				}
				l := normaliseTokList(TokListSpec{Flags: m.flags, Items: append([]TokItem{}, its...), Term: tm.term, Tail: B("X"), SpWS: B(tm.spws)})
				n := len(l.Render())
				for _, entry := range m.entries {
					for _, pcap := range []int{1, 10} {
						if entry == "tok" && pcap != 1 {
							continue
						}
						c := CaseTokList{L: l, Entry: entry, PCap: pcap, Inject: -1}
						cuts := []int{0, n / 2}
						if allCuts {
							cuts = cuts[:1]
							for k := 1; k < n; k++ {
								cuts = append(cuts, k)
							}
						}
						for _, k := range cuts {
							c.Cut = k
							if !emit(c) {
								return
							}
						}
					}
				}
			}
		}
	}
}
