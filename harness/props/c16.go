package props

// C16: header-name and method classification is total and exactly the table.

import (
	"bytes"
	"strings"

	"github.com/intuitivelabs/sipsp"
	"pgregory.net/rapid"
)

// reference tables, transcribed from the statement of C16 / RFC 3261 names.
var refHdrNames = []struct {
	n string
	t sipsp.HdrT
}{
	{"from", sipsp.HdrFrom}, {"f", sipsp.HdrFrom},
	{"to", sipsp.HdrTo}, {"t", sipsp.HdrTo},
	{"call-id", sipsp.HdrCallID}, {"i", sipsp.HdrCallID},
	{"cseq", sipsp.HdrCSeq},
	{"via", sipsp.HdrVia}, {"v", sipsp.HdrVia},
	{"max-forwards", sipsp.HdrMaxFwd},
	{"content-length", sipsp.HdrCLen}, {"l", sipsp.HdrCLen},
	{"contact", sipsp.HdrContact}, {"m", sipsp.HdrContact},
	{"expires", sipsp.HdrExpires},
	{"user-agent", sipsp.HdrUA},
	{"record-route", sipsp.HdrRecordRoute},
	{"route", sipsp.HdrRoute},
	{"p-asserted-identity", sipsp.HdrPAI},
}

var refMethods = []struct {
	n string
	m sipsp.SIPMethod
}{
	{"REGISTER", sipsp.MRegister}, {"INVITE", sipsp.MInvite}, {"ACK", sipsp.MAck},
	{"BYE", sipsp.MBye}, {"PRACK", sipsp.MPrack}, {"CANCEL", sipsp.MCancel},
	{"OPTIONS", sipsp.MOptions}, {"SUBSCRIBE", sipsp.MSubscribe},
	{"NOTIFY", sipsp.MNotify}, {"UPDATE", sipsp.MUpdate}, {"INFO", sipsp.MInfo},
	{"REFER", sipsp.MRefer}, {"PUBLISH", sipsp.MPublish}, {"MESSAGE", sipsp.MMessage},
}

func asciiLower(b []byte) string {
	o := make([]byte, len(b))
	for i, c := range b {
		if c >= 'A' && c <= 'Z' {
			c += 'a' - 'A'
		}
		o[i] = c
	}
	return string(o)
}

func refHdrType(name []byte) sipsp.HdrT {
	l := asciiLower(name)
	for _, e := range refHdrNames {
		if e.n == l {
			return e.t
		}
	}
	return sipsp.HdrOther
}

func refMethodNo(name []byte) sipsp.SIPMethod {
	for _, e := range refMethods {
		if e.n == string(name) {
			return e.m
		}
	}
	return sipsp.MOther
}

// nearMember: non-member sharing first-byte low bits and length mod 4 with a member,
// or a member in non-canonical case.
func c16NonTrivHdr(name []byte) bool {
	if len(name) == 0 {
		return true
	}
	l := asciiLower(name)
	for _, e := range refHdrNames {
		if e.n == l {
			return string(name) != e.n
		}
	}
	for _, e := range refHdrNames {
		if (e.n[0]&0x0f) == (l[0]&0x0f) && len(e.n)%4 == len(l)%4 {
			return true
		}
	}
	return false
}

func c16NonTrivMth(name []byte) bool {
	if len(name) == 0 {
		return true
	}
	u := strings.ToUpper(string(name))
	for _, e := range refMethods {
		if e.n == u {
			return true
		}
	}
	l := asciiLower(name)
	for _, e := range refMethods {
		le := strings.ToLower(e.n)
		if (le[0]&0x07) == (l[0]&0x07) && len(le)%4 == len(l)%4 {
			return true
		}
	}
	return false
}

type CaseName struct {
	Name B `json:"name"`
}

var C16Hdr = Register(&Check[CaseName]{
	Prop: "C16", Name: "C16.hdr",
	Gen: func(t *rapid.T) CaseName { return CaseName{Name: genLookupName(t, true)} },
	Eval: func(c CaseName) Result {
		got := sipsp.GetHdrType(c.Name)
		want := refHdrType(c.Name)
		if got != want {
			r := viol("GetHdrType(%s) = %d (%v), reference table says %d (%v)", c.Name, got, got, want, want)
			return r
		}
		return ok(c16NonTrivHdr(c.Name))
	},
})

var C16Mth = Register(&Check[CaseName]{
	Prop: "C16", Name: "C16.mth",
	Gen: func(t *rapid.T) CaseName { return CaseName{Name: genLookupName(t, false)} },
	Eval: func(c CaseName) Result {
		got := sipsp.GetMethodNo(c.Name)
		want := refMethodNo(c.Name)
		if got != want {
			return viol("GetMethodNo(%s) = %d, reference table says %d", c.Name, got, want)
		}
		if got != sipsp.MOther {
			if !bytes.Equal(got.Name(), c.Name) {
				return viol("method %d .Name() = %q, looked up from %s", got, got.Name(), c.Name)
			}
		}
		return ok(c16NonTrivMth(c.Name))
	},
})

// CaseMthRound: numeric method -> name -> numeric is the identity.
type CaseMthNo struct {
	M int `json:"m"`
}

var C16Round = Register(&Check[CaseMthNo]{
	Prop: "C16", Name: "C16.round",
	Eval: func(c CaseMthNo) Result {
		m := sipsp.SIPMethod(c.M)
		n := m.Name()
		if m >= 1 && m < sipsp.MOther {
			if string(n) != refMethods[0].n && len(n) == 0 {
				return viol("method %d has an empty name", m)
			}
			found := false
			for _, e := range refMethods {
				if e.m == m {
					found = true
					if string(n) != e.n {
						return viol("method %d .Name() = %q, reference %q", m, n, e.n)
					}
				}
			}
			if !found {
				return viol("method %d not in the reference table", m)
			}
			if back := sipsp.GetMethodNo(n); back != m {
				return viol("GetMethodNo(Name(%d)=%q) = %d", m, n, back)
			}
			return ok(true)
		}
		// out of the known range: only has to return
		_ = m.String()
		return ok(false)
	},
})

// CaseHdrLine: classification as assigned by the header parser.
type CaseHdrLine struct {
	Name B `json:"name"`
	WS   B `json:"ws"`  // whitespace between name and ':'
	Tail B `json:"val"` // value text (no CR/LF)
	// Pre: bytes in front of the line (the line is parsed at offset len(Pre), like any header after the first)
	Pre B `json:"pre,omitempty"`
}

var C16Parse = Register(&Check[CaseHdrLine]{
	Prop: "C16", Name: "C16.parse",
	Gen: func(t *rapid.T) CaseHdrLine {
		n := genLookupName(t, true)
		// header-name tokens cannot hold WS, ':' CR LF
		var clean []byte
		for _, ch := range n {
			if ch != ' ' && ch != '\t' && ch != ':' && ch != '\r' && ch != '\n' {
				clean = append(clean, ch)
			}
		}
		if len(clean) == 0 {
			clean = []byte("x")
		}
		ws := rapid.SampledFrom([]string{"", "", " ", "\t", "  ", " \t "}).Draw(t, "ws")
		tail := rapid.SampledFrom([]string{"v", "", " a b", "1"}).Draw(t, "tail")
		c := CaseHdrLine{Name: clean, WS: B(ws), Tail: B(tail)}
		switch rapid.IntRange(0, 3).Draw(t, "pre_k") {
		case 0:
		case 1:
			c.Pre = B("\n")
		case 2:
			c.Pre = B("Via: SIP/2.0/UDP h\r\n")
		default:
			c.Pre = bytes.Repeat([]byte("x"), rapid.IntRange(1, 40).Draw(t, "pre_n"))
		}
		return c
	},
	Eval: func(c CaseHdrLine) Result {
		line := append(append(append(append(append([]byte{}, c.Pre...), c.Name...), c.WS...), ':'), c.Tail...)
		line = append(line, "\r\nX"...)
		var h sipsp.Hdr
		o, err := sipsp.ParseHdrLine(line, len(c.Pre), &h, nil)
		if err != 0 {
			return viol("ParseHdrLine(%s) = %d, %v; want success", B(line), o, err)
		}
		want := refHdrType(c.Name)
		if h.Type != want {
			return viol("ParseHdrLine(%s): Hdr.Type = %v, reference %v", B(line), h.Type, want)
		}
		if !bytes.Equal(h.Name.Get(line), c.Name) {
			return viol("ParseHdrLine(%s): Hdr.Name = %q, want %q", B(line), h.Name.Get(line), c.Name)
		}
		return ok(c16NonTrivHdr(c.Name))
	},
})

// genLookupName draws names biased to the neighbourhood of the tables.
func genLookupName(t *rapid.T, hdr bool) B {
	var table []string
	if hdr {
		for _, e := range refHdrNames {
			table = append(table, e.n)
		}
	} else {
		for _, e := range refMethods {
			table = append(table, e.n)
		}
	}
	switch rapid.IntRange(0, 5).Draw(t, "kind") {
	case 0: // re-cased member
		n := []byte(rapid.SampledFrom(table).Draw(t, "member"))
		mask := rapid.Uint32().Draw(t, "casemask")
		for i := range n {
			if mask&(1<<uint(i%32)) != 0 {
				n[i] = flipCase(n[i])
			}
		}
		return n
	case 1, 2: // edited member (1..3 edits)
		n := []byte(rapid.SampledFrom(table).Draw(t, "member"))
		k := rapid.IntRange(1, 3).Draw(t, "edits")
		for e := 0; e < k; e++ {
			n = editOnce(t, n)
		}
		return n
	case 3: // same bucket as a member: same first byte bits and length class
		m := rapid.SampledFrom(table).Draw(t, "member")
		l := len(m) + 4*rapid.IntRange(-2, 3).Draw(t, "dl")
		if l < 1 {
			l = len(m)
		}
		n := make([]byte, l)
		for i := range n {
			n[i] = rapid.Byte().Draw(t, "b")
		}
		n[0] = (m[0] & 0x0f) | (rapid.Byte().Draw(t, "hi") & 0xf0)
		return n
	case 4:
		if rapid.Bool().Draw(t, "padded") {
			// a table name followed (or preceded) by 4k bytes: same first byte, same length mod 4
			m := rapid.SampledFrom(table).Draw(t, "member")
			k := 4 * rapid.IntRange(1, 3).Draw(t, "k")
			pad := genFrom(t, "pad", "\x00\x00 \t-AaZz09\xff", k, k)
			if rapid.IntRange(0, 3).Draw(t, "front") == 0 {
				return append(append(B{}, pad...), m...)
			}
			return append(B(m), pad...)
		}
		return rapid.SliceOfN(rapid.Byte(), 0, 24).Draw(t, "raw")
	default:
		return []byte(rapid.StringMatching(`[A-Za-z\-]{0,20}`).Draw(t, "tok"))
	}
}

func flipCase(c byte) byte {
	if c >= 'a' && c <= 'z' {
		return c - 32
	}
	if c >= 'A' && c <= 'Z' {
		return c + 32
	}
	return c
}

func editOnce(t *rapid.T, n []byte) []byte {
	switch rapid.IntRange(0, 3).Draw(t, "op") {
	case 0: // insert
		p := rapid.IntRange(0, len(n)).Draw(t, "pos")
		b := rapid.Byte().Draw(t, "b")
		o := append([]byte{}, n[:p]...)
		o = append(o, b)
		return append(o, n[p:]...)
	case 1: // delete
		if len(n) == 0 {
			return n
		}
		p := rapid.IntRange(0, len(n)-1).Draw(t, "pos")
		o := append([]byte{}, n[:p]...)
		return append(o, n[p+1:]...)
	case 2: // substitute
		if len(n) == 0 {
			return n
		}
		p := rapid.IntRange(0, len(n)-1).Draw(t, "pos")
		o := append([]byte{}, n...)
		o[p] = rapid.Byte().Draw(t, "b")
		return o
	default: // transpose
		if len(n) < 2 {
			return n
		}
		p := rapid.IntRange(0, len(n)-2).Draw(t, "pos")
		o := append([]byte{}, n...)
		o[p], o[p+1] = o[p+1], o[p]
		return o
	}
}

// ---- enumerations ----

// enumCasings emits all 2^k case variants of the letters of every name.
func enumCasings(names []string, emit func(CaseName) bool) {
	for _, n := range names {
		var letters []int
		for i := 0; i < len(n); i++ {
			c := n[i]
			if c >= 'a' && c <= 'z' || c >= 'A' && c <= 'Z' {
				letters = append(letters, i)
			}
		}
		for mask := 0; mask < 1<<uint(len(letters)); mask++ {
			b := []byte(strings.ToLower(n))
			for j, p := range letters {
				if mask&(1<<uint(j)) != 0 {
					b[p] -= 32
				}
			}
			if !emit(CaseName{Name: b}) {
				return
			}
		}
	}
}

// enumOneEdit emits every one-edit neighbour (over all 256 byte values) of every name.
func enumOneEdit(names []string, emit func(CaseName) bool) {
	for _, n := range names {
		for _, base := range []string{n, strings.ToUpper(n), strings.ToLower(n)} {
			b := []byte(base)
			for p := 0; p <= len(b); p++ { // insert
				for v := 0; v < 256; v++ {
					o := append(append(append([]byte{}, b[:p]...), byte(v)), b[p:]...)
					if !emit(CaseName{Name: o}) {
						return
					}
				}
			}
			for p := 0; p < len(b); p++ { // delete, substitute
				o := append(append([]byte{}, b[:p]...), b[p+1:]...)
				if !emit(CaseName{Name: o}) {
					return
				}
				for v := 0; v < 256; v++ {
					s := append([]byte{}, b...)
					s[p] = byte(v)
					if !emit(CaseName{Name: s}) {
						return
					}
				}
			}
			for p := 0; p+1 < len(b); p++ { // transpose
				s := append([]byte{}, b...)
				s[p], s[p+1] = s[p+1], s[p]
				if !emit(CaseName{Name: s}) {
					return
				}
			}
		}
	}
}

// enumShort emits all byte strings of length 0..maxLen whose first byte (if any)
// is in shard's slice of the byte range.
func enumShort(maxLen int, shard, nshards int, emit func(CaseName) bool) {
	if shard == 0 {
		if !emit(CaseName{Name: B{}}) {
			return
		}
	}
	for first := shard; first < 256; first += nshards {
		for l := 1; l <= maxLen; l++ {
			buf := make([]byte, l)
			buf[0] = byte(first)
			total := 1
			for i := 1; i < l; i++ {
				total *= 256
			}
			for v := 0; v < total; v++ {
				x := v
				for i := l - 1; i >= 1; i-- {
					buf[i] = byte(x)
					x >>= 8
				}
				if !emit(CaseName{Name: append(B{}, buf...)}) {
					return
				}
			}
		}
	}
}

func hdrTableNames() []string {
	var o []string
	for _, e := range refHdrNames {
		o = append(o, e.n)
	}
	return o
}

func mthTableNames() []string {
	var o []string
	for _, e := range refMethods {
		o = append(o, e.n)
	}
	return o
}

// enumPadded emits every table name followed by every 4-byte suffix over a small alphabet
// (same hash bucket: same first byte, same length mod 4), and by 8 equal bytes.
func enumPadded(names []string, emit func(CaseName) bool) {
	alpha := []byte{0x00, ' ', '-', 'A', 'a', 'e', 'E', 0xff}
	for _, n := range names {
		for _, base := range []string{n, strings.ToUpper(n)} {
			for v := 0; v < len(alpha)*len(alpha)*len(alpha)*len(alpha); v++ {
				x := v
				suf := make([]byte, 4)
				for i := range suf {
					suf[i] = alpha[x%len(alpha)]
					x /= len(alpha)
				}
				if !emit(CaseName{Name: append(B(base), suf...)}) {
					return
				}
			}
			for _, ch := range alpha {
				if !emit(CaseName{Name: append(B(base), bytes.Repeat([]byte{ch}, 8)...)}) {
					return
				}
			}
		}
	}
}

// enumTwoSub emits every name that differs from a table name in exactly two positions (each of the 256 byte values
// at both): compare loops that accumulate or combine differences per word or per position can cancel two of them.
func enumTwoSub(names []string, shard, nshards int, emit func(CaseName) bool) {
	idx := 0
	for _, n := range names {
		b := []byte(n)
		for p := 0; p < len(b); p++ {
			for q := p + 1; q < len(b); q++ {
				idx++
				if idx%nshards != shard {
					continue
				}
				s := append([]byte{}, b...)
				for v := 0; v < 256; v++ {
					s[p] = byte(v)
					for w := 0; w < 256; w++ {
						s[q] = byte(w)
						if !emit(CaseName{Name: append(B{}, s...)}) {
							return
						}
					}
				}
			}
		}
	}
}

// enumLongPadded: every table name followed by 256 / 512 / 768 further bytes (a length that wraps an 8-bit counter
// back onto the name's own length) and by 255 / 257 (just beside it).
func enumLongPadded(names []string, emit func(CaseName) bool) {
	for _, n := range names {
		for _, pad := range []int{255, 256, 257, 512, 768, 1024} {
			for _, fill := range []byte{'X', 'a', '-', 0} {
				o := append([]byte(n), bytes.Repeat([]byte{fill}, pad)...)
				if !emit(CaseName{Name: o}) {
					return
				}
			}
		}
	}
}
