package props

// genfrag.go: per-parser input fragments and configurations.

import (
	"bytes"

	"github.com/intuitivelabs/sipsp"
	"pgregory.net/rapid"
)

// ---------- token parameter lists ----------

// TokItem is one "name[=value]" item of a separator-delimited list.
type TokItem struct {
	WS0   B    `json:"ws0"` // before the name
	Name  B    `json:"name"`
	WS1   B    `json:"ws1"` // after the name
	HasEq bool `json:"eq"`
	WS2   B    `json:"ws2"` // after '='
	Val   B    `json:"val"` // token or quoted string with its quotes; may be empty
	WS3   B    `json:"ws3"` // after the value
}

// TokListSpec is a parameter list with its terminator.
type TokListSpec struct {
	Flags uint      `json:"flags"` // POptFlags without InputEnd
	Items []TokItem `json:"items"` // an item with an empty name is an empty list item
	// Term: how the list ends: "term" (the terminator byte of the flags),
	// "sp" (whitespace then a token, SpTerm), "eoh" (CRLF + non-WS), "end" (end of input)
	Term string `json:"term"`
	Tail B      `json:"tail"` // bytes after the terminator
	// SpWS: the whitespace of the "sp" terminator (default one space); always ends in SP or HT
	SpWS B `json:"spws,omitempty"`
}

func (l TokListSpec) spws() []byte {
	if len(l.SpWS) == 0 {
		return []byte(" ")
	}
	return l.SpWS
}

func tokSepTerm(flags sipsp.POptFlags) (sep, term byte) {
	sep = ';'
	if flags&(sipsp.POptParamAmpSepF|sipsp.POptTokURIHdrF) != 0 {
		sep = '&'
	}
	if flags&(sipsp.POptTokQmTermF|sipsp.POptTokURIParamF) != 0 {
		term = '?'
	} else if flags&sipsp.POptTokCommaTermF != 0 {
		term = ','
	}
	return
}

func (l TokListSpec) Render() []byte {
	sep, term := tokSepTerm(sipsp.POptFlags(l.Flags))
	var w bytes.Buffer
	for i, it := range l.Items {
		if i > 0 {
			w.WriteByte(sep)
		}
		w.Write(it.WS0)
		w.Write(it.Name)
		w.Write(it.WS1)
		if it.HasEq {
			w.WriteByte('=')
			w.Write(it.WS2)
			w.Write(it.Val)
			w.Write(it.WS3)
		}
	}
	switch l.Term {
	case "term":
		if term != 0 {
			w.WriteByte(term)
		}
		w.Write(l.Tail)
	case "sp":
		w.Write(l.spws())
		w.Write(l.Tail)
	case "eoh":
		w.WriteString("\r\n")
		w.Write(l.Tail)
	case "end":
	}
	return w.Bytes()
}

// tokNameAlphabet: bytes allowed in both param and header mode, minus separators.
const tokNameAlphabet = "abcdefghijklmnopqrstuvwxyzABCXYZ0123456789-_.!~*'()%[]/:+$"

func genTokFlags(t *rapid.T) uint {
	switch weighted(t, "tokflags_k", 3, 2, 2, 2, 2, 3) {
	case 0:
		return uint(sipsp.POptParamSemiSepF)
	case 1:
		return uint(sipsp.POptTokURIParamF)
	case 2:
		return uint(sipsp.POptTokURIHdrF | sipsp.POptParamAmpSepF)
	case 3:
		return uint(sipsp.POptParamSemiSepF | sipsp.POptTokCommaTermF)
	case 4:
		return uint(sipsp.POptParamSemiSepF | sipsp.POptTokSpTermF)
	default:
		return uint(rapid.IntRange(0, 255).Draw(t, "tokflags")) &^ uint(sipsp.POptInputEndF)
	}
}

func genTokList(t *rapid.T, flags uint) TokListSpec {
	l := TokListSpec{Flags: flags}
	n := []int{0, 1, 1, 2, 2, 3, 3, 4, 5}[uniformIdx(t, "tl_n", 9)]
	if oneIn(t, "tl_needle", 40) {
		n = manyN(t, "tl_many", 0)
	}
	ws := rapid.IntRange(0, 2).Draw(t, "tl_ws") != 0
	for i := 0; i < n; i++ {
		var it TokItem
		if rapid.IntRange(0, 9).Draw(t, "tl_empty") == 0 {
			if ws {
				it.WS0 = genLWS(t, "tl_ws0")
			}
			l.Items = append(l.Items, it) // empty item
			continue
		}
		switch weighted(t, "tl_name_k", 4, 3) {
		case 0:
			it.Name = recase(t, pick(t, "tl_kn", "transport", "user", "method", "ttl", "maddr", "lr", "branch", "tag", "x"))
		default:
			it.Name = genFrom(t, "tl_name", tokNameAlphabet, 1, 8)
		}
		if ws {
			it.WS0 = genLWS(t, "tl_ws0")
			it.WS1 = genLWS(t, "tl_ws1")
		}
		if rapid.IntRange(0, 9).Draw(t, "tl_eq") < 7 {
			it.HasEq = true
			switch weighted(t, "tl_val_k", 6, 2, 1) {
			case 0:
				it.Val = genFrom(t, "tl_val", tokNameAlphabet, 1, 10)
			case 1:
				it.Val = genTokQuoted(t)
			}
			if ws {
				it.WS2 = genLWS(t, "tl_ws2")
				it.WS3 = genLWS(t, "tl_ws3")
			}
		}
		l.Items = append(l.Items, it)
	}
	_, term := tokSepTerm(sipsp.POptFlags(flags))
	var opts []string
	if term != 0 {
		opts = append(opts, "term", "term")
	}
	if sipsp.POptFlags(flags)&sipsp.POptTokSpTermF != 0 {
		opts = append(opts, "sp", "sp")
	}
	opts = append(opts, "eoh", "end")
	l.Term = pick(t, "tl_term", opts...)
	if l.Term == "sp" {
		l.SpWS = B(pick(t, "tl_spws", "", "", " ", "\t", "  ", " \t", "\t ", "\r\n ", "\r\n\t", "\n ", "\r ", " \r\n\t"))
	}
	l.Tail = B(pick(t, "tl_tail", "X", "x=1", "next", "", "a b", "?h=1", ",z"))
	if l.Term == "sp" || l.Term == "eoh" {
		if len(l.Tail) == 0 || isLWSByte(l.Tail[0]) {
			l.Tail = B("X")
		}
	}
	return l
}

// genTokQuoted: quoted string as accepted by SkipQuoted (no CR/LF, no ctrl).
func genTokQuoted(t *rapid.T) B {
	var w bytes.Buffer
	w.WriteByte('"')
	n := rapid.IntRange(0, 6).Draw(t, "tq_n")
	for i := 0; i < n; i++ {
		w.WriteString(pick(t, "tq", "a", "b c", ";", ",", "&", "?", "=", "\\\"", "\\\\", "\\x", "\t", "<>", "1", "@", "!", "!#~", "\xc3\xa9", "\x80\xff", "\\!"))
	}
	w.WriteByte('"')
	return w.Bytes()
}

// ---------- fragments per parser kind ----------

func tailAfterEOL(t *rapid.T) B {
	return B(pick(t, "tail", "X", "X", "Next: v\r\n", "\r\n", "\n", "", "x", " folded\r\nY"))
}

func genCaps(t *rapid.T, label string, n int) int {
	// -1 = none/built-in, else 0..n+1
	switch weighted(t, label+"_k", 6, 10, 4, 1) {
	case 3:
		return manyN(t, label+"_many", 0) // capacities around the sizes fixed scratch arrays and narrow counters use
	case 0:
		return -1
	case 1:
		return rapid.IntRange(0, 3).Draw(t, label)
	default:
		return rapid.IntRange(0, n+1).Draw(t, label)
	}
}

var nameAddrTypes = []int{int(sipsp.HdrFrom), int(sipsp.HdrTo), int(sipsp.HdrContact), int(sipsp.HdrRoute),
	int(sipsp.HdrRecordRoute), int(sipsp.HdrPAI), int(sipsp.HdrOther)}

// genCfg draws a configuration for a parser kind.
func genCfg(t *rapid.T, kind string) Cfg {
	c := Cfg{Kind: kind, HdrCap: -1, CtCap: -1, PCap: -1}
	switch kind {
	case KMsg:
		c.Flags = uint(rapid.IntRange(0, 3).Draw(t, "msgflags"))
		c.EndLast = rapid.IntRange(0, 3).Draw(t, "endlast") == 0
		c.HdrCap = genCaps(t, "hdrcap", 12)
		c.CtCap = genCaps(t, "ctcap", 4)
	case KHeaders, KHeadersNil:
		c.HdrCap = genCaps(t, "hdrcap", 12)
		c.CtCap = genCaps(t, "ctcap", 4)
	case KHdrLinePV:
		c.CtCap = genCaps(t, "ctcap", 4)
	case KContacts:
		c.CtCap = genCaps(t, "ctcap", 4)
	case KNameAddr:
		c.HType = pick(t, "htype", nameAddrTypes...)
	case KTokParam:
		c.Flags = genTokFlags(t)
		c.EndLast = rapid.IntRange(0, 2).Draw(t, "endlast") == 0
	case KURIParams:
		c.Flags = uint(pick(t, "upflags", sipsp.POptTokURIParamF, sipsp.POptTokQmTermF, sipsp.POptTokSpTermF,
			sipsp.POptNoneF, sipsp.POptTokCommaTermF, sipsp.POptTokURIParamF|sipsp.POptTokSpTermF))
		c.EndLast = rapid.IntRange(0, 1).Draw(t, "endlast") == 0
		c.PCap = genCaps(t, "pcap", 5)
	case KURIHdrs:
		c.Flags = uint(pick(t, "uhflags", sipsp.POptTokURIHdrF, sipsp.POptNoneF, sipsp.POptTokSpTermF, sipsp.POptTokCommaTermF))
		c.EndLast = rapid.IntRange(0, 1).Draw(t, "endlast") == 0
		c.PCap = genCaps(t, "pcap", 5)
	}
	return c
}

// effective POptFlags a list wrapper passes down (for rendering well-formed lists)
func effTokFlags(c Cfg) uint {
	f := sipsp.POptFlags(c.Flags)
	switch c.Kind {
	case KURIParams:
		f |= sipsp.POptParamSemiSepF
	case KURIHdrs:
		f |= sipsp.POptParamAmpSepF | sipsp.POptTokURIHdrF
	}
	return uint(f)
}

func wrapVal(t *rapid.T, v []byte) []byte {
	var w bytes.Buffer
	w.Write(genLWS(t, "v_pre"))
	w.Write(v)
	w.Write(genLWS(t, "v_post"))
	w.Write(genEOL(t, "v_eol"))
	w.Write(tailAfterEOL(t))
	return w.Bytes()
}

// genFragGrammar renders a well-formed input for the parser kind.
func genFragGrammar(t *rapid.T, c Cfg) []byte {
	switch c.Kind {
	case KMsg:
		return genMsgSpec(t, 8, true).Render()
	case KFLine:
		var w bytes.Buffer
		genFLine(t).render(&w)
		w.Write(tailAfterEOL(t))
		return w.Bytes()
	case KHdrLine, KHdrLinePV:
		var w bytes.Buffer
		if rapid.IntRange(0, 12).Draw(t, "emptyline") == 0 {
			w.Write(genEOL(t, "el"))
		} else {
			genHdr(t, c.Kind == KHdrLinePV).render(&w)
		}
		w.Write(tailAfterEOL(t))
		return w.Bytes()
	case KHeaders, KHeadersNil:
		m := genMsgSpec(t, 8, c.Kind == KHeaders)
		b := m.RenderHeaders()
		return append(b, m.Body...)
	case KNameAddr:
		if multiOK(c.HType) {
			return wrapVal(t, genNameAddrList(t, 2, c.HType == int(sipsp.HdrContact)))
		}
		return wrapVal(t, genNameAddr(t, false).Render())
	case KContact1, KContacts:
		return wrapVal(t, genNameAddrList(t, 4, true))
	case KPAI1, KPAIs:
		return wrapVal(t, genNameAddrList(t, 4, false))
	case KCSeq:
		return wrapVal(t, genTypedVal(t, "cseq"))
	case KCallID:
		return wrapVal(t, genTypedVal(t, "call-id"))
	case KUInt, KExpires:
		return wrapVal(t, genTypedVal(t, "expires"))
	case KCLen:
		return wrapVal(t, genTypedVal(t, "content-length"))
	case KTokParam, KURIParams, KURIHdrs:
		return genTokList(t, effTokFlags(c)).Render()
	case KSkipQuoted:
		q := genTokQuoted(t)
		return append(q[1:], tailAfterEOL(t)...)
	}
	return nil
}

func multiOK(h int) bool {
	switch sipsp.HdrT(h) {
	case sipsp.HdrContact, sipsp.HdrRecordRoute, sipsp.HdrRoute, sipsp.HdrPAI:
		return true
	}
	return false
}

// genFragment: grammar / mutated / raw mix for a parser kind.
func genFragment(t *rapid.T, c Cfg) ([]byte, string) {
	switch weighted(t, "input_class", 55, 35, 10) {
	case 0:
		return genFragGrammar(t, c), "in:grammar"
	case 1:
		return mutate(t, genFragGrammar(t, c), 4), "in:mutated"
	default:
		return genRaw(t, 60), "in:raw"
	}
}

// genJunkPrefix: hostile bytes placed before the text (start offset > 0).
func genJunkPrefix(t *rapid.T) B {
	if rapid.IntRange(0, 2).Draw(t, "haspre") != 0 {
		return nil
	}
	return genFrom(t, "pre", "\r\n\" 0123:;<,aX\\", 1, 8)
}
