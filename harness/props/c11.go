package props

// C11: results are invariant under where in the buffer the text starts.

import (
	"github.com/intuitivelabs/sipsp"
	"pgregory.net/rapid"
)

// CaseShift: the same text parsed at offset 0 and at offset K behind junk.
type CaseShift struct {
	Cfg   Cfg    `json:"cfg"`
	Buf   B      `json:"buf"`
	K     int    `json:"k"`    // shift; -1 = place the text so that it ends exactly at 65,535
	Junk  B      `json:"junk"` // pattern repeated to fill the K bytes before the text
	Sched []int  `json:"sched"`
	Class string `json:"class,omitempty"`
}

func evalShift(cs CaseShift) Result {
	n := len(cs.Buf)
	k := cs.K
	if k < 0 {
		k = 65535 - n
	}
	if k+n > 65535 || k <= 0 {
		return Result{Skip: true}
	}
	junk := cs.Junk
	if len(junk) == 0 {
		junk = B("\r")
	}
	shifted := make([]byte, k+n)
	for i := 0; i < k; i++ {
		shifted[i] = junk[i%len(junk)]
	}
	copy(shifted[k:], cs.Buf)
	plain := []byte(cs.Buf)
	sched := normSchedule(cs.Sched, n)
	a, b := NewStepper(cs.Cfg), NewStepper(cs.Cfg)
	oa, ob := 0, k
	classes := []string{"kind:" + cs.Cfg.Kind}
	if cs.Class != "" {
		classes = append(classes, cs.Class)
	}
	switch {
	case cs.K < 0:
		classes = append(classes, "k:ends-at-65535")
	case k <= 8:
		classes = append(classes, "k:1..8")
	default:
		classes = append(classes, "k:large")
	}
	for j, c := range sched {
		last := j == len(sched)-1
		o1, e1 := a.Step(plain[:c:c], oa, last)
		o2, e2 := b.Step(shifted[:k+c:k+c], ob, last)
		if e1 != e2 || o2 != o1+k {
			return viol("%s: step %d (prefix %d): at offset 0 -> (%d, %v); at offset %d -> (%d, %v), expected offset %d\ninput=%s junk=%s",
				cs.Cfg.Kind, j, c, o1, e1, k, o2, e2, o1+k, cs.Buf, junk).with(true, classes...)
		}
		if e1 != sipsp.ErrHdrMoreBytes {
			s1 := a.Snap(plain[:c:c], 0, e1)
			s2 := b.Snap(shifted[:k+c:k+c], k, e2)
			if s1 != s2 {
				return viol("%s: verdict (%d, %v): values at start offset %d differ from those at offset 0 (got = shifted, want = offset 0)\n%s\ninput=%s junk=%s",
					cs.Cfg.Kind, o1, e1, k, diffSnap(s2, s1), cs.Buf, junk).with(true, classes...)
			}
			if a.Success(e1) {
				classes = append(classes, "outcome:success")
			} else {
				classes = append(classes, "outcome:error")
			}
			return ok(true, classes...)
		}
		oa, ob = o1, o2
	}
	return ok(false, append(classes, "never-definitive")...)
}

var C11Shift = Register(&Check[CaseShift]{
	Prop: "C11", Name: "C11.shift",
	Gen: func(t *rapid.T) CaseShift {
		kind := pick(t, "kind", allKinds...)
		cfg := genCfg(t, kind)
		cs := CaseShift{Cfg: cfg}
		if kind == KMsg {
			b, class := genMsgBytes(t, 8)
			cs.Buf, cs.Class = b, "in:"+class
		} else {
			cs.Buf, cs.Class = genFragment(t, cfg)
		}
		switch weighted(t, "k_kind", 5, 3, 1) {
		case 0:
			cs.K = rapid.IntRange(1, 8).Draw(t, "k")
		case 1:
			cs.K = rapid.IntRange(9, 3000).Draw(t, "k")
		default:
			cs.K = -1
		}
		cs.Junk = genFrom(t, "junk", "\r\n\" 0123:;<,aX\\=>*", 1, 6)
		if rapid.Bool().Draw(t, "chunked") {
			cs.Sched = genSchedule(t, len(cs.Buf), hotPositions(cs.Buf))
		}
		return cs
	},
	Eval: evalShift,
})

// C11Scope: every enumerated string at offsets 1 and 3 behind hostile junk, one-shot and every-byte.
var C11Scope = Register(&Check[CaseAllCuts]{
	Prop: "C11", Name: "C11.scope",
	Eval: func(cs CaseAllCuts) Result {
		n := len(cs.Buf)
		every := make([]int, 0, n)
		for c := 1; c <= n; c++ {
			every = append(every, c)
		}
		nt := false
		for _, v := range []struct {
			k    int
			junk string
			s    []int
		}{{1, "\"", nil}, {3, "1\r\n", nil}, {2, ";a", every}} {
			r := evalShift(CaseShift{Cfg: cs.Cfg, Buf: cs.Buf, K: v.k, Junk: B(v.junk), Sched: v.s})
			if r.Viol {
				return r
			}
			nt = nt || r.NonTriv
		}
		return ok(nt, "kind:"+cs.Cfg.Kind)
	},
})
