package props

// obs.go: canonical, comparable snapshots of everything a caller can read back
// from the parser objects. Positions are rendered relative to a base offset so
// that parses at different start offsets can be compared (C11).

import (
	"fmt"
	"reflect"
	"strings"

	"github.com/intuitivelabs/sipsp"
)

type snap struct {
	sb   strings.Builder
	buf  []byte
	base int
}

func newSnap(buf []byte, base int) *snap { return &snap{buf: buf, base: base} }

func (s *snap) String() string { return s.sb.String() }

func (s *snap) kv(k string, v interface{}) { fmt.Fprintf(&s.sb, "%s=%v\n", k, v) }

// pf renders a field; an empty field carries no position.
func (s *snap) pf(k string, f sipsp.PField) {
	if f.Len == 0 {
		fmt.Fprintf(&s.sb, "%s=(-,0)\n", k)
		return
	}
	s.pfPos(k, f)
}

// pfPos renders a field with its position even when empty.
func (s *snap) pfPos(k string, f sipsp.PField) {
	o, l := int(f.Offs), int(f.Len)
	if o+l > len(s.buf) {
		fmt.Fprintf(&s.sb, "%s=(%d,%d,OUT-OF-RANGE len(buf)=%d)\n", k, o-s.base, l, len(s.buf))
		return
	}
	b := s.buf[o : o+l]
	if len(b) > 120 {
		fmt.Fprintf(&s.sb, "%s=(%d,%d,%q..%q #%x)\n", k, o-s.base, l, b[:40], b[len(b)-40:], hashBytes(b))
		return
	}
	fmt.Fprintf(&s.sb, "%s=(%d,%d,%q)\n", k, o-s.base, l, b)
}

func (s *snap) fline(k string, fl *sipsp.PFLine) {
	s.kv(k+".Status", fl.Status)
	s.kv(k+".MethodNo", fl.MethodNo)
	s.pf(k+".Method", fl.Method)
	s.pf(k+".URI", fl.URI)
	s.pf(k+".Version", fl.Version)
	s.pf(k+".StatusCode", fl.StatusCode)
	s.pf(k+".Reason", fl.Reason)
	s.kv(k+".Request", fl.Request())
	s.kv(k+".state", fmt.Sprintf("E%v/P%v/Pd%v", fl.Empty(), fl.Parsed(), fl.Pending()))
}

func (s *snap) hdr(k string, h *sipsp.Hdr) {
	s.kv(k+".Type", h.Type)
	s.pf(k+".Name", h.Name)
	s.pf(k+".Val", h.Val)
}

func (s *snap) from(k string, f *sipsp.PFromBody) {
	s.pf(k+".Name", f.Name)
	s.pf(k+".URI", f.URI)
	s.pf(k+".Tag", f.Tag)
	s.pf(k+".Params", f.Params)
	s.pf(k+".V", f.V)
	s.kv(k+".flags", fmt.Sprintf("Star=%v LR=%v HasExpires=%v Type=%v Q=%d Expires=%d ParamErr=%d",
		f.Star, f.LR, f.HasExpires, f.Type, f.Q, f.Expires, f.ParamErr))
	if f.ParamErr != 0 {
		s.kv(k+".ErrOffs", int(f.ErrOffs)-s.base)
	}
	s.kv(k+".state", fmt.Sprintf("E%v/P%v/Pd%v", f.Empty(), f.Parsed(), f.Pending()))
}

func (s *snap) cseq(k string, c *sipsp.PCSeqBody) {
	s.kv(k+".CSeqNo", c.CSeqNo)
	s.kv(k+".MethodNo", c.MethodNo)
	s.pf(k+".CSeq", c.CSeq)
	s.pf(k+".Method", c.Method)
	s.pf(k+".V", c.V)
	s.kv(k+".state", fmt.Sprintf("E%v/P%v/Pd%v", c.Empty(), c.Parsed(), c.Pending()))
}

func (s *snap) callid(k string, c *sipsp.PCallIDBody) {
	s.pf(k+".CallID", c.CallID)
	s.kv(k+".state", fmt.Sprintf("E%v/P%v/Pd%v", c.Empty(), c.Parsed(), c.Pending()))
}

func (s *snap) uintb(k string, c *sipsp.PUIntBody) {
	s.kv(k+".UIVal", c.UIVal)
	s.pf(k+".SVal", c.SVal)
	s.kv(k+".state", fmt.Sprintf("E%v/P%v/Pd%v", c.Empty(), c.Parsed(), c.Pending()))
}

func (s *snap) tok(k string, p *sipsp.PTokParam) {
	s.pf(k+".All", p.All)
	s.pf(k+".Name", p.Name)
	s.pf(k+".Val", p.Val)
}

// contacts renders the completed part of a contact list.
func (s *snap) contacts(k string, c *sipsp.PContacts) {
	s.kv(k+".N", c.N)
	s.kv(k+".HNo", c.HNo)
	s.kv(k+".VNo", c.VNo())
	s.kv(k+".More", c.More())
	s.kv(k+".Empty/Parsed", fmt.Sprintf("%v/%v", c.Empty(), c.Parsed()))
	if c.N > 0 {
		s.kv(k+".MaxExpires", c.MaxExpires)
		s.kv(k+".MinExpires", c.MinExpires)
		s.pf(k+".LastHVal", c.LastHVal)
	}
	for i := 0; i < c.VNo(); i++ {
		s.from(fmt.Sprintf("%s.Vals[%d]", k, i), &c.Vals[i])
	}
	if c.N > 0 {
		if g := c.GetContact(0); g != nil {
			s.from(k+".GetContact(0)", g)
		} else {
			s.kv(k+".GetContact(0)", "nil")
		}
		if g := c.GetContact(c.N - 1); g != nil {
			s.from(k+".GetContact(N-1)", g)
		} else {
			s.kv(k+".GetContact(N-1)", "nil")
		}
	}
}

func (s *snap) pais(k string, c *sipsp.PPAIs) {
	s.kv(k+".N", c.N)
	s.kv(k+".HNo", c.HNo)
	s.kv(k+".VNo", c.VNo())
	s.kv(k+".More", c.More())
	if c.N > 0 {
		s.pf(k+".LastHVal", c.LastHVal)
	}
	for i := 0; i < c.VNo(); i++ {
		s.from(fmt.Sprintf("%s.Vals[%d]", k, i), &c.Vals[i])
		if c.GetPAI(i) != &c.Vals[i] {
			s.kv(fmt.Sprintf("%s.GetPAI(%d)", k, i), "MISMATCH")
		}
	}
}

func (s *snap) hdrlst(k string, hl *sipsp.HdrLst) {
	s.kv(k+".N", hl.N)
	s.kv(k+".PFlags", fmt.Sprintf("%#x", uint(hl.PFlags)))
	n := hl.N
	if n > len(hl.Hdrs) {
		n = len(hl.Hdrs)
	}
	for i := 0; i < n; i++ {
		s.hdr(fmt.Sprintf("%s.Hdrs[%d]", k, i), &hl.Hdrs[i])
	}
	for t := sipsp.HdrNone; t <= sipsp.HdrOther; t++ {
		h := hl.GetHdr(t)
		if h == nil {
			continue
		}
		if h.Missing() {
			continue
		}
		s.hdr(fmt.Sprintf("%s.GetHdr(%d)", k, t), h)
	}
}

// hdrvals renders the header-specific values; if onlyParsed is set, members
// that are not completely parsed are left out (error verdicts).
func (s *snap) hdrvals(k string, pv *sipsp.PHdrVals, onlyParsed bool) {
	if !onlyParsed || pv.From.Parsed() {
		s.from(k+".From", &pv.From)
	}
	if !onlyParsed || pv.To.Parsed() {
		s.from(k+".To", &pv.To)
	}
	if !onlyParsed || pv.Callid.Parsed() {
		s.callid(k+".Callid", &pv.Callid)
	}
	if !onlyParsed || pv.CSeq.Parsed() {
		s.cseq(k+".CSeq", &pv.CSeq)
	}
	if !onlyParsed || pv.CLen.Parsed() {
		s.uintb(k+".CLen", &pv.CLen)
	}
	if !onlyParsed || pv.Expires.Parsed() {
		s.uintb(k+".Expires", &pv.Expires)
	}
	s.contacts(k+".Contacts", &pv.Contacts)
	s.pais(k+".PAIs", &pv.PAIs)
	if !onlyParsed {
		m, okk := pv.MaxExpires()
		s.kv(k+".MaxExpires()", fmt.Sprintf("%d,%v", m, okk))
	}
}

func (s *snap) msg(m *sipsp.PSIPMsg, success bool) {
	s.kv("Parsed/Err", fmt.Sprintf("%v/%v", m.Parsed(), m.Err()))
	if success || m.FL.Parsed() {
		s.fline("FL", &m.FL)
		s.kv("Request", m.Request())
	}
	s.hdrlst("HL", &m.HL)
	s.hdrvals("PV", &m.PV, !success)
	if success {
		s.kv("Method()", m.Method())
		s.pfPos("Body", m.Body)
		s.kv("len(Buf)-start", len(m.Buf)-s.base)
		if len(m.Buf) > 0 && len(s.buf) > 0 && &m.Buf[0] != &s.buf[0] {
			s.kv("Buf", "NOT-THE-CALLERS-BUFFER")
		}
		s.kv("RawMsg", fmt.Sprintf("len=%d #%x", len(m.RawMsg), hashBytes(m.RawMsg)))
		if len(m.RawMsg) > 0 && len(m.RawMsg) <= len(m.Buf) {
			// position of RawMsg inside Buf
			off := len(m.Buf) - len(m.RawMsg)
			if &m.RawMsg[0] == &m.Buf[off] {
				s.kv("RawMsg.start", off-s.base)
			} else {
				s.kv("RawMsg.start", "not-a-suffix-of-Buf")
			}
		}
	}
}

func (s *snap) uriparams(k string, l *sipsp.URIParamsLst) {
	s.kv(k+".N", l.N)
	s.kv(k+".Types", fmt.Sprintf("%#x", uint(l.Types)))
	s.kv(k+".PNo/More/Empty", fmt.Sprintf("%d/%v/%v", l.PNo(), l.More(), l.Empty()))
	for i := 0; i < l.PNo(); i++ {
		s.tok(fmt.Sprintf("%s.Params[%d]", k, i), &l.Params[i].Param)
		s.kv(fmt.Sprintf("%s.Params[%d].T", k, i), fmt.Sprintf("%#x", uint(l.Params[i].T)))
	}
}

func (s *snap) urihdrs(k string, l *sipsp.URIHdrsLst) {
	s.kv(k+".N", l.N)
	s.kv(k+".HNo/More/Empty", fmt.Sprintf("%d/%v/%v", l.HNo(), l.More(), l.Empty()))
	for i := 0; i < l.HNo(); i++ {
		s.tok(fmt.Sprintf("%s.Hdrs[%d]", k, i), (*sipsp.PTokParam)(&l.Hdrs[i]))
	}
}

func (s *snap) uri(k string, u *sipsp.PsipURI) {
	s.kv(k+".URIType", u.URIType)
	s.pf(k+".Scheme", u.Scheme)
	s.pf(k+".User", u.User)
	s.pf(k+".Pass", u.Pass)
	s.pf(k+".Host", u.Host)
	s.pf(k+".Port", u.Port)
	s.pf(k+".Params", u.Params)
	s.pf(k+".Headers", u.Headers)
	s.kv(k+".PortNo", u.PortNo)
}

// ---- dereference walk (C04): every exported PField reachable from an object
// must satisfy Offs+Len <= len(buf). ----

var pfieldType = reflect.TypeOf(sipsp.PField{})

// derefAll returns a description of the first out-of-range field, or "".
func derefAll(obj interface{}, buflen int) string {
	return derefValue(reflect.ValueOf(obj), "", buflen, 0)
}

func derefValue(v reflect.Value, path string, buflen int, depth int) string {
	if depth > 8 {
		return ""
	}
	switch v.Kind() {
	case reflect.Ptr, reflect.Interface:
		if v.IsNil() {
			return ""
		}
		return derefValue(v.Elem(), path, buflen, depth+1)
	case reflect.Struct:
		if v.Type() == pfieldType {
			o := int(v.Field(0).Uint())
			l := int(v.Field(1).Uint())
			if o+l > buflen {
				return fmt.Sprintf("%s = {Offs:%d Len:%d} exceeds the buffer (len %d)", path, o, l, buflen)
			}
			return ""
		}
		t := v.Type()
		for i := 0; i < v.NumField(); i++ {
			f := t.Field(i)
			if f.PkgPath != "" && !f.Anonymous { // unexported, not reported to callers
				continue
			}
			if f.Type.Kind() == reflect.Slice && f.Type.Elem().Kind() == reflect.Uint8 {
				continue // Buf / RawMsg
			}
			if r := derefValue(v.Field(i), path+"."+f.Name, buflen, depth+1); r != "" {
				return r
			}
		}
	case reflect.Slice, reflect.Array:
		if v.Type().Elem().Kind() == reflect.Uint8 {
			return ""
		}
		for i := 0; i < v.Len(); i++ {
			if r := derefValue(v.Index(i), fmt.Sprintf("%s[%d]", path, i), buflen, depth+1); r != "" {
				return r
			}
		}
	}
	return ""
}

// countPFields is used by the self-test that the walker sees every exported PField.
func countPFields(v reflect.Value, depth int) int {
	n := 0
	switch v.Kind() {
	case reflect.Ptr, reflect.Interface:
		if !v.IsNil() {
			n += countPFields(v.Elem(), depth+1)
		}
	case reflect.Struct:
		if v.Type() == pfieldType {
			return 1
		}
		t := v.Type()
		for i := 0; i < v.NumField(); i++ {
			f := t.Field(i)
			if f.PkgPath != "" && !f.Anonymous {
				continue
			}
			n += countPFields(v.Field(i), depth+1)
		}
	case reflect.Slice, reflect.Array:
		if v.Type().Elem().Kind() != reflect.Uint8 {
			for i := 0; i < v.Len(); i++ {
				n += countPFields(v.Index(i), depth+1)
			}
		}
	}
	return n
}

// walkPFields calls fn for every exported PField reachable from obj.
func walkPFields(obj interface{}, path string, fn func(path string, f sipsp.PField)) {
	walkPF(reflect.ValueOf(obj), path, fn, 0)
}

func walkPF(v reflect.Value, path string, fn func(string, sipsp.PField), depth int) {
	if depth > 8 {
		return
	}
	switch v.Kind() {
	case reflect.Ptr, reflect.Interface:
		if !v.IsNil() {
			walkPF(v.Elem(), path, fn, depth+1)
		}
	case reflect.Struct:
		if v.Type() == pfieldType {
			fn(path, sipsp.PField{Offs: sipsp.OffsT(v.Field(0).Uint()), Len: sipsp.OffsT(v.Field(1).Uint())})
			return
		}
		t := v.Type()
		for i := 0; i < v.NumField(); i++ {
			f := t.Field(i)
			if f.PkgPath != "" && !f.Anonymous {
				continue
			}
			walkPF(v.Field(i), path+"."+f.Name, fn, depth+1)
		}
	case reflect.Slice, reflect.Array:
		if v.Type().Elem().Kind() != reflect.Uint8 {
			for i := 0; i < v.Len(); i++ {
				walkPF(v.Index(i), fmt.Sprintf("%s[%d]", path, i), fn, depth+1)
			}
		}
	}
}
