package props

// C06: message framing - Content-Length, body modes and pipelined messages.

import (
	"bytes"
	"fmt"
	"sort"

	"github.com/intuitivelabs/sipsp"
	"pgregory.net/rapid"
)

// CaseFrame: a well-formed first line + header block without Content-Length,
// a Content-Length policy, available body bytes and flags.
type CaseFrame struct {
	Head   MsgSpec `json:"head"`    // FL + Hdrs + Blank (Body unused); no Content-Length header inside
	CL     int     `json:"cl"`      // declared Content-Length; -1 = absent
	CLName B       `json:"cl_name"` // "Content-Length" / "l" in any case
	CLPos  int     `json:"cl_pos"`  // position of the Content-Length header among the headers
	Avail  B       `json:"avail"`   // bytes that follow the blank line in the buffer
	Flags  uint    `json:"flags"`   // 0..7
	Sched  []int   `json:"sched"`   // chunk schedule: the verdict of the last call (whole buffer) is what the table describes
	// TruncAt > 0: additionally the first line + header block is cut at 1 + (TruncAt-1) mod (header-end - 1) and parsed
	// in no-more-data mode: nothing more will come, so the verdict must be a definitive failure, never more-bytes-needed
	TruncAt int `json:"trunc_at,omitempty"`
}

func (c CaseFrame) render() ([]byte, int) {
	m := c.Head
	m.Body = nil
	if c.CL >= 0 {
		cl := HdrSpec{Name: c.CLName, PostLWS: B(" "), Val: B(fmt.Sprintf("%d", c.CL)), EOL: B("\r\n")}
		pos := c.CLPos
		if pos < 0 || pos > len(m.Hdrs) {
			pos = len(m.Hdrs)
		}
		hs := append([]HdrSpec{}, m.Hdrs[:pos]...)
		hs = append(hs, cl)
		hs = append(hs, m.Hdrs[pos:]...)
		m.Hdrs = hs
	}
	// the blank line must be recognisable without look-ahead into the body
	if string(m.Blank) == "\r" {
		m.Blank = B("\r\n")
	}
	fixMsgSpec(&m)
	head := m.Render()
	return append(head, c.Avail...), len(head)
}

func evalFrame(c CaseFrame) Result {
	buf, hdrEnd := c.render()
	if len(buf) > 65535 {
		return Result{Skip: true}
	}
	flags := uint8(c.Flags & 7)
	skip := flags&sipsp.SIPMsgSkipBodyF != 0
	req := flags&sipsp.SIPMsgCLenReqF != 0
	nomore := flags&sipsp.SIPMsgNoMoreDataF != 0
	avail := len(c.Avail)
	var msg sipsp.PSIPMsg
	msg.Init(nil, make([]sipsp.Hdr, 70), nil)
	o := 0
	var e sipsp.ErrorHdr
	sched := normSchedule(c.Sched, len(buf))
	for j, cp := range sched {
		f := flags
		if j < len(sched)-1 {
			f &^= sipsp.SIPMsgNoMoreDataF // more data follows: the end-of-input flag belongs to the last call only
		}
		o, e = sipsp.ParseSIPMsg(buf[:cp:cp], o, &msg, f)
		if e != sipsp.ErrHdrMoreBytes {
			if j < len(sched)-1 {
				// definitive before the whole buffer was seen: parse the whole buffer one-shot instead
				// (C03 covers "definitive results do not change"); the table is about the complete buffer
				msg.Init(nil, make([]sipsp.Hdr, 70), nil)
				o, e = sipsp.ParseSIPMsg(buf, 0, &msg, flags)
			}
			break
		}
	}
	rel := "absent"
	switch {
	case c.CL < 0:
	case c.CL > 1<<24:
		rel = ">2^24"
	case c.CL == avail:
		rel = "equal"
	case c.CL < avail:
		rel = "smaller"
	default:
		rel = "larger"
	}
	classes := []string{fmt.Sprintf("flags:%d", flags), "cl:" + rel}
	nt := !skip && c.CL >= 0 && c.CL != avail
	ctx := fmt.Sprintf("flags=%d (skip-body=%v require-CL=%v no-more-data=%v) Content-Length=%d available=%d header-end=%d", flags, skip, req, nomore, c.CL, avail, hdrEnd)
	wantBody := func(bs, be int) string {
		if e != 0 {
			return fmt.Sprintf("verdict %v, want success", e)
		}
		if o != be {
			return fmt.Sprintf("returned offset %d, want %d", o, be)
		}
		if int(msg.Body.Offs) != bs || int(msg.Body.Offs)+int(msg.Body.Len) != be {
			return fmt.Sprintf("Body = [%d,%d), want [%d,%d)", msg.Body.Offs, int(msg.Body.Offs)+int(msg.Body.Len), bs, be)
		}
		if !msg.Parsed() || msg.Err() {
			return fmt.Sprintf("Parsed()=%v Err()=%v after success", msg.Parsed(), msg.Err())
		}
		if !bytes.Equal(msg.RawMsg, buf[:be]) || len(msg.Buf) != be {
			return fmt.Sprintf("RawMsg/Buf do not cover [0,%d): len(RawMsg)=%d len(Buf)=%d", be, len(msg.RawMsg), len(msg.Buf))
		}
		return ""
	}
	var m string
	switch {
	case c.CL > 1<<24:
		if e == 0 || e == sipsp.ErrHdrMoreBytes || e == sipsp.ErrHdrNoCLen {
			m = fmt.Sprintf("Content-Length above 2^24 not rejected: (%d, %v)", o, e)
		} else if !msg.Err() || msg.Parsed() {
			m = fmt.Sprintf("rejected with %v but Err()=%v Parsed()=%v", e, msg.Err(), msg.Parsed())
		}
	case skip && req && c.CL < 0:
		if e != sipsp.ErrHdrNoCLen || o != hdrEnd {
			m = fmt.Sprintf("got (%d, %v), want (%d, %v): skip-body + require-Content-Length must report the missing header", o, e, hdrEnd, sipsp.ErrHdrNoCLen)
		}
	case skip:
		m = wantBody(hdrEnd, hdrEnd) // returns the body start
	case c.CL >= 0 && avail >= c.CL:
		m = wantBody(hdrEnd, hdrEnd+c.CL)
	case c.CL >= 0 && nomore:
		m = wantBody(hdrEnd, len(buf)) // truncated body only in no-more-data mode
	case c.CL >= 0:
		if e != sipsp.ErrHdrMoreBytes {
			m = fmt.Sprintf("got (%d, %v), want more-bytes-needed: only %d of %d body bytes are available", o, e, avail, c.CL)
		} else if msg.Parsed() {
			m = "Parsed() is true although the body is incomplete"
		}
	case req:
		m = wantBody(hdrEnd, hdrEnd) // no Content-Length: never guess, empty body
	default:
		m = wantBody(hdrEnd, len(buf)) // body is the rest of the buffer
	}
	if m != "" {
		return viol("%s\n%s\nmsg=%s", m, ctx, B(buf)).with(true, classes...)
	}
	if c.TruncAt > 0 && hdrEnd > 1 && c.CL <= 1<<24 {
		k := 1 + (c.TruncAt-1)%(hdrEnd-1)
		var tm sipsp.PSIPMsg
		tm.Init(nil, make([]sipsp.Hdr, 70), nil)
		to, te := sipsp.ParseSIPMsg(buf[:k:k], 0, &tm, flags&^sipsp.SIPMsgNoMoreDataF)
		if te != sipsp.ErrHdrMoreBytes || to < 0 || to > k {
			return viol("the first %d bytes of a well-formed head (ends at %d) give (%d, %v), want more-bytes-needed\nmsg=%s", k, hdrEnd, to, te, B(buf[:k])).with(true, classes...)
		}
		if tm.Parsed() || tm.Err() {
			return viol("after more-bytes-needed on %d of %d head bytes: Parsed()=%v Err()=%v\nmsg=%s", k, hdrEnd, tm.Parsed(), tm.Err(), B(buf[:k])).with(true, classes...)
		}
		// the same prefix is all there will ever be (resumed with the flag, and one-shot with the flag)
		ro, re := sipsp.ParseSIPMsg(buf[:k:k], to, &tm, flags|sipsp.SIPMsgNoMoreDataF)
		var om sipsp.PSIPMsg
		om.Init(nil, make([]sipsp.Hdr, 70), nil)
		oo, oe := sipsp.ParseSIPMsg(buf[:k:k], 0, &om, flags|sipsp.SIPMsgNoMoreDataF)
		for _, x := range []struct {
			how string
			o   int
			e   sipsp.ErrorHdr
			m   *sipsp.PSIPMsg
		}{{"resumed", ro, re, &tm}, {"one-shot", oo, oe, &om}} {
			if x.e == sipsp.ErrHdrMoreBytes || x.e == 0 || x.e == sipsp.ErrHdrNoCLen || !x.m.Err() || x.m.Parsed() {
				return viol("head cut at %d of %d in no-more-data mode (%s): (%d, %v) Err()=%v Parsed()=%v, want a definitive failure (incomplete data)\nmsg=%s",
					k, hdrEnd, x.how, x.o, x.e, x.m.Err(), x.m.Parsed(), B(buf[:k])).with(true, classes...)
			}
		}
		if re != oe {
			return viol("head cut at %d of %d in no-more-data mode: resumed verdict %v, one-shot verdict %v\nmsg=%s", k, hdrEnd, re, oe, B(buf[:k])).with(true, classes...)
		}
		classes = append(classes, "truncated-head+no-more-data")
		nt = true
	}
	return ok(nt, classes...)
}

func genHead(t *rapid.T, maxHdrs int) MsgSpec {
	m := genValidMsg(t, maxHdrs)
	var hs []HdrSpec
	for _, h := range m.Hdrs {
		if ln := asciiLower(h.Name); ln == "content-length" || ln == "l" {
			continue
		}
		hs = append(hs, h)
	}
	if len(hs) == 0 {
		hs = append(hs, HdrSpec{Name: B("Via"), PostLWS: B(" "), Val: B("SIP/2.0/UDP h"), EOL: B("\r\n")})
	}
	m.Hdrs = hs
	m.Body = nil
	return m
}

func genFrame(t *rapid.T) CaseFrame {
	c := CaseFrame{Head: genHead(t, 6), Flags: uint(rapid.IntRange(0, 7).Draw(t, "flags"))}
	n := 0
	switch weighted(t, "avail_k", 2, 5, 2, 1) {
	case 0:
	case 1:
		n = rapid.IntRange(1, 40).Draw(t, "avail")
	case 2:
		n = rapid.IntRange(41, 2000).Draw(t, "avail")
	default:
		n = rapid.IntRange(2001, 60000).Draw(t, "avail")
	}
	c.Avail = bytes.Repeat([]byte("v=0\r\nSIP/2.0 200 OK\r\n\r\nab:"), n/26+1)[:n]
	switch weighted(t, "cl_k", 3, 4, 3, 3, 1) {
	case 0:
		c.CL = -1
	case 1:
		c.CL = n
	case 2:
		c.CL = rapid.IntRange(0, n).Draw(t, "cl_smaller")
	case 3:
		c.CL = n + rapid.IntRange(1, 70000).Draw(t, "cl_larger")
	default:
		c.CL = (1 << 24) + rapid.IntRange(1, 1000).Draw(t, "cl_huge")
	}
	c.CLName = recase(t, pick(t, "clname", "Content-Length", "l"))
	c.CLPos = rapid.IntRange(0, len(c.Head.Hdrs)).Draw(t, "clpos")
	if rapid.IntRange(0, 3).Draw(t, "trunc") == 0 {
		c.TruncAt = rapid.IntRange(1, 4000).Draw(t, "truncat")
	}
	if rapid.IntRange(0, 2).Draw(t, "chunked") == 0 {
		k := rapid.IntRange(1, 5).Draw(t, "ncuts")
		for i := 0; i < k; i++ {
			c.Sched = append(c.Sched, rapid.IntRange(1, 600).Draw(t, "cut"))
		}
		sort.Ints(c.Sched)
	}
	return c
}

var C06Frame = Register(&Check[CaseFrame]{Prop: "C06", Name: "C06.frame", Gen: genFrame, Eval: evalFrame})

// ---------- pipelining ----------

// CasePipe: k messages laid back to back in one buffer.
type CasePipe struct {
	Msgs  []CaseFrame `json:"msgs"`  // each with CL == len(Avail) (self-delimiting), or CL absent for the last one
	Skip  bool        `json:"skip"`  // skip-body mode: the harness advances by Content-Length itself
	Req   bool        `json:"req"`   // require Content-Length
	Sched []int       `json:"sched"` // chunk schedule over the whole buffer
	Reuse bool        `json:"reuse"` // one object with Reset() between messages / a new object per message
}

func evalPipe(c CasePipe) Result {
	if len(c.Msgs) == 0 {
		return Result{Skip: true}
	}
	var all []byte
	var starts []int
	var parts [][]byte
	for _, m := range c.Msgs {
		b, _ := m.render()
		starts = append(starts, len(all))
		parts = append(parts, b)
		all = append(all, b...)
	}
	if len(all) > 65535 {
		return Result{Skip: true}
	}
	flags := uint8(0)
	if c.Skip {
		flags |= sipsp.SIPMsgSkipBodyF
	}
	if c.Req {
		flags |= sipsp.SIPMsgCLenReqF
	}
	sched := normSchedule(c.Sched, len(all))
	cfg := Cfg{Kind: KMsg, Flags: uint(flags), HdrCap: 70, CtCap: 20, PCap: -1}
	st := NewStepper(cfg)
	offs := 0
	si := 0
	for k := range c.Msgs {
		// parse message k from offs, feeding the stream in chunks
		o := offs
		var e sipsp.ErrorHdr
		var view []byte
		for {
			for si < len(sched)-1 && sched[si] <= o {
				si++
			}
			view = all[:sched[si]:sched[si]]
			o, e = st.Step(view, o, false)
			if e != sipsp.ErrHdrMoreBytes {
				break
			}
			if si == len(sched)-1 {
				break
			}
			si++
		}
		// the same message parsed alone
		alone := NewStepper(cfg)
		ao, ae := alone.Step(parts[k], 0, false)
		if e != ae || o-offs != ao {
			return viol("pipelined message %d of %d (at offset %d): got (%d, %v), parsed alone (%d, %v)\nstream=%s", k, len(c.Msgs), offs, o-offs, e, ao, ae, B(all))
		}
		if e != 0 {
			return viol("pipelined message %d of %d does not parse: (%d, %v)\nmsg=%s", k, len(c.Msgs), o-offs, e, B(parts[k]))
		}
		s1 := st.Snap(view, offs, e)
		s2 := alone.Snap(parts[k], 0, ae)
		if s1 != s2 {
			return viol("pipelined message %d of %d (at offset %d): values differ from the message parsed alone (got = pipelined, want = alone)\n%s\nstream=%s", k, len(c.Msgs), offs, diffSnap(s1, s2), B(all))
		}
		next := o
		if c.Skip {
			next = o + int(st.msg.PV.CLen.UIVal) // skip-body: the caller advances by Content-Length
		}
		if next != starts[k]+len(parts[k]) {
			return viol("after message %d the stream position is %d, the next message starts at %d\nstream=%s", k, next, starts[k]+len(parts[k]), B(all))
		}
		offs = next
		if c.Reuse {
			st.ResetObj(false)
		} else {
			st = NewStepper(cfg)
		}
	}
	return ok(len(c.Msgs) >= 2, fmt.Sprintf("k:%d", len(c.Msgs)))
}

var C06Pipe = Register(&Check[CasePipe]{
	Prop: "C06", Name: "C06.pipe",
	Gen: func(t *rapid.T) CasePipe {
		var c CasePipe
		k := rapid.IntRange(1, 5).Draw(t, "k")
		c.Skip = rapid.IntRange(0, 3).Draw(t, "skip") == 0
		c.Req = rapid.Bool().Draw(t, "req")
		for i := 0; i < k; i++ {
			f := CaseFrame{Head: genHead(t, 5)}
			n := rapid.IntRange(0, 60).Draw(t, "bodylen")
			f.Avail = genFrom(t, "body", "abc \r\n:SIP/2.0", n, n)
			f.CL = n
			f.CLName = recase(t, pick(t, "clname", "Content-Length", "l"))
			f.CLPos = rapid.IntRange(0, len(f.Head.Hdrs)).Draw(t, "clpos")
			c.Msgs = append(c.Msgs, f)
		}
		total := 0
		for _, m := range c.Msgs {
			b, _ := m.render()
			total += len(b)
		}
		if rapid.Bool().Draw(t, "chunked") {
			c.Sched = genSchedule(t, total, nil)
		}
		c.Reuse = rapid.Bool().Draw(t, "reuse")
		return c
	},
	Eval: evalPipe,
})
