package props

// C15: URI comparison obeys the laws of an equivalence check.
// C18: relocating a parsed URI and its derived views preserve every component.

import (
	"bytes"
	"fmt"

	"github.com/intuitivelabs/sipsp"
	"pgregory.net/rapid"
)

// CaseURIPair: a URI, a related URI and what the relation is.
type CaseURIPair struct {
	A   URISpec `json:"a"`
	Bb  URISpec `json:"b"`
	Rel string  `json:"rel"` // "variant" (must be equal), "changed:<component>" (must differ unless skipped), "unrelated", "onesided-other"
}

const (
	fPort = uint(sipsp.URICmpSkipPort)
	fSch  = uint(sipsp.URICmpSkipScheme)
	fUser = uint(sipsp.URICmpSkipUser)
	fPass = uint(sipsp.URICmpSkipPass)
	fPar  = uint(sipsp.URICmpSkipParams)
	fHdr  = uint(sipsp.URICmpSkipHeaders)
)

func cmpAll(a, b []byte) (res [64]bool, err string) {
	var ua, ub sipsp.PsipURI
	if e, p := sipsp.ParseURI(a, &ua); e != 0 {
		return res, fmt.Sprintf("generated URI %s does not parse: (%v, %d)", B(a), e, p)
	}
	if e, p := sipsp.ParseURI(b, &ub); e != 0 {
		return res, fmt.Sprintf("generated URI %s does not parse: (%v, %d)", B(b), e, p)
	}
	for f := 0; f < 64; f++ {
		res[f] = sipsp.URICmp(&ua, a, &ub, b, sipsp.URICmpFlags(f))
	}
	return res, ""
}

func evalURIPair(c CaseURIPair) Result {
	a, b := c.A.Render(), c.Bb.Render()
	ab, e1 := cmpAll(a, b)
	if e1 != "" {
		return viol("%s", e1)
	}
	ba, _ := cmpAll(b, a)
	aa, _ := cmpAll(a, a)
	bb, _ := cmpAll(b, b)
	ctx := fmt.Sprintf("\na=%s\nb=%s", B(a), B(b))
	for f := 0; f < 64; f++ {
		if !aa[f] || !bb[f] {
			return viol("not reflexive with flags %#x: cmp(a,a)=%v cmp(b,b)=%v%s", f, aa[f], bb[f], ctx)
		}
		if ab[f] != ba[f] {
			return viol("not symmetric with flags %#x: cmp(a,b)=%v cmp(b,a)=%v%s", f, ab[f], ba[f], ctx)
		}
		for bit := 1; bit < 64; bit <<= 1 {
			if f&bit == 0 && ab[f] && !ab[f|bit] {
				return viol("not monotone: equal with flags %#x but different with %#x (one more component ignored)%s", f, f|bit, ctx)
			}
		}
	}
	// entry points agree, and hand back the parsed URIs
	var ua, ub, r1, r2 sipsp.PsipURI
	sipsp.ParseURI(a, &ua)
	sipsp.ParseURI(b, &ub)
	for k, f := range []int{0, 1, 2, 4, 8, 16, 32, 63, 21, 42} {
		// the output structures are the caller's: they may have been used before
		switch k % 3 {
		case 1:
			sipsp.ParseURI([]byte("sips:olduser:oldpass@old.example.org:5071;transport=tls;maddr=1.2.3.4?subject=old&x=y"), &r1)
			r2 = r1
		case 2:
			r1, r2 = ub, ua
		}
		g1, ge1, gw1 := sipsp.URIParseCmp(a, b, sipsp.URICmpFlags(f), &r1, &r2)
		g2, ge2, gw2 := sipsp.URIRawCmp(a, b, sipsp.URICmpFlags(f))
		if g1 != ab[f] || g2 != ab[f] || ge1 != 0 || ge2 != 0 || gw1 != 0 || gw2 != 0 {
			return viol("flags %#x: URICmp=%v URIParseCmp=(%v,%v,%d) URIRawCmp=(%v,%v,%d)%s", f, ab[f], g1, ge1, gw1, g2, ge2, gw2, ctx)
		}
		if r1 != ua {
			return viol("URIParseCmp hands back r1 = %+v, ParseURI(a) = %+v%s", r1, ua, ctx)
		}
		if r2 != ub {
			return viol("URIParseCmp hands back r2 = %+v, ParseURI(b) = %+v%s", r2, ub, ctx)
		}
	}
	// the same two URIs living inside larger buffers (relocated there with AdjustOffs, e.g. a Contact value and a
	// request line): the comparison is about the URIs, not about what surrounds them
	{
		preA, preB := []byte("Contact: \"x\" <"), []byte("INVITE ")
		bufA := append(append(append([]byte{}, preA...), a...), ">;expires=60;q=0.5\r\n"...)
		bufB := append(append(append([]byte{}, preB...), b...), " SIP/2.0\r\nVia: SIP/2.0/UDP h;branch=z9hG4bKx\r\n"...)
		ea, eb := ua, ub
		if ea.AdjustOffs(sipsp.PField{Offs: sipsp.OffsT(len(preA)), Len: sipsp.OffsT(len(a))}) &&
			eb.AdjustOffs(sipsp.PField{Offs: sipsp.OffsT(len(preB)), Len: sipsp.OffsT(len(b))}) {
			for f := 0; f < 64; f++ {
				if got := sipsp.URICmp(&ea, bufA, &eb, bufB, sipsp.URICmpFlags(f)); got != ab[f] {
					return viol("flags %#x: URICmp on the stand-alone URIs = %v, on the same URIs relocated into %s and %s = %v%s", f, ab[f], B(bufA), B(bufB), got, ctx)
				}
			}
			if got := sipsp.URICmpShort(&ea, bufA, &eb, bufB, 0); got != sipsp.URICmpShort(&ua, a, &ub, b, 0) {
				return viol("URICmpShort differs between the stand-alone and the relocated URIs (%v)%s", got, ctx)
			}
		} else {
			return viol("AdjustOffs refused a span of exactly the URI length%s", ctx)
		}
	}
	sh := sipsp.URICmpShort(&ua, a, &ub, b, 0)
	if ab[0] && !sh {
		return viol("URICmp says equal but URICmpShort says different%s", ctx)
	}
	nt := len(c.A.Params)+len(c.A.Hdrs) > 0
	// relation-specific expectations
	switch {
	case c.Rel == "variant":
		for f := 0; f < 64; f++ {
			if !ab[f] {
				return viol("equivalent variant (parameters/headers permuted, scheme/host/parameter names and values/header names re-cased) compares different with flags %#x%s", f, ctx)
			}
		}
	case len(c.Rel) > 8 && c.Rel[:8] == "changed:":
		comp := c.Rel[8:]
		var skip uint
		switch comp {
		case "user", "user-case":
			skip = fUser
		case "pass", "pass-case":
			skip = fPass
		case "port":
			skip = fPort
		case "scheme":
			skip = fSch
		case "param-value", "onesided-user", "onesided-ttl", "onesided-method", "onesided-maddr", "onesided-beyond-100":
			skip = fPar
		case "hdr-value", "hdr-name", "hdr-added":
			skip = fHdr
		case "host":
			skip = 0
		}
		for f := 0; f < 64; f++ {
			ignored := skip != 0 && uint(f)&skip != 0
			if !ignored && ab[f] {
				return viol("URIs differing in %s compare equal with flags %#x (that component is not ignored)%s", comp, f, ctx)
			}
			if ignored && comp != "host" && !ab[f] {
				return viol("URIs differing only in %s compare different with flags %#x although that component is ignored%s", comp, f, ctx)
			}
		}
	}
	return ok(nt, "rel:"+c.Rel)
}

func permuteKVs(t *rapid.T, kvs []KV, label string) []KV {
	if len(kvs) < 2 {
		return append([]KV{}, kvs...)
	}
	return rapid.Permutation(kvs).Draw(t, label)
}

func genURIPair(t *rapid.T) CaseURIPair {
	a := genURISpec(t)
	// keep tel: out of the component-change relations (user/host are swapped there)
	b := a
	b.Params = append([]KV{}, a.Params...)
	b.Hdrs = append([]KV{}, a.Hdrs...)
	c := CaseURIPair{A: a}
	relk := weighted(t, "rel_k", 4, 6, 2)
	if relk == 1 && asciiLower(a.Scheme) == "tel:" {
		relk = 0 // tel: reports the number as the user: the component-change table below is for sip/sips
	}
	// a single-component change is applied on top of an equivalent variant half of the time,
	// so that e.g. a changed parameter value meets a re-cased parameter name
	if relk == 1 && rapid.Bool().Draw(t, "change_on_variant") {
		b.Params = permuteKVs(t, b.Params, "pperm")
		b.Hdrs = permuteKVs(t, b.Hdrs, "hperm")
		b.Host = recase(t, string(a.Host))
		for i := range b.Params {
			b.Params[i].Name = recase(t, string(b.Params[i].Name))
			b.Params[i].Val = recase(t, string(b.Params[i].Val))
		}
		for i := range b.Hdrs {
			b.Hdrs[i].Name = recase(t, string(b.Hdrs[i].Name))
		}
	}
	switch relk {
	case 0:
		c.Rel = "variant"
		b.Params = permuteKVs(t, b.Params, "pperm")
		b.Hdrs = permuteKVs(t, b.Hdrs, "hperm")
		b.Scheme = recase(t, asciiLower(a.Scheme))
		if asciiLower(a.Scheme) != "tel:" {
			b.Host = recase(t, string(a.Host)) // (for tel: the host text is the case-sensitive number)
		}
		for i := range b.Params {
			b.Params[i].Name = recase(t, string(b.Params[i].Name))
			b.Params[i].Val = recase(t, string(b.Params[i].Val))
		}
		for i := range b.Hdrs {
			b.Hdrs[i].Name = recase(t, string(b.Hdrs[i].Name))
		}
	case 1:
		var opts []string
		isTel := asciiLower(a.Scheme) == "tel:"
		opts = append(opts, "host")
		if !isTel {
			opts = append(opts, "port", "scheme", "onesided-user", "onesided-ttl", "onesided-method", "onesided-maddr", "hdr-added", "onesided-beyond-100")
			if a.HasUser {
				opts = append(opts, "user", "user-case")
				if a.HasPass {
					opts = append(opts, "pass", "pass-case")
				}
			}
			for _, p := range a.Params {
				if p.HasEq && len(p.Val) > 0 {
					opts = append(opts, "param-value")
					break
				}
			}
			if len(a.Hdrs) > 0 {
				opts = append(opts, "hdr-value", "hdr-name")
			}
		}
		comp := pick(t, "comp", opts...)
		c.Rel = "changed:" + comp
		hasParam := func(n string) bool {
			for _, p := range a.Params {
				if asciiLower(p.Name) == n {
					return true
				}
			}
			return false
		}
		switch comp {
		case "host":
			b.Host = append(append(B{}, a.Host...), 'x')
			if len(a.Host) > 0 && a.Host[0] == '[' {
				b.Host = B("[::2:1]")
				if string(a.Host) == "[::2:1]" {
					b.Host = B("[::3]")
				}
			}
		case "port":
			if a.HasPort {
				v := decToBig(string(a.Port)).Int64()
				b.Port = B(fmt.Sprintf("%d", (v+1)%65536))
			} else {
				b.HasPort = true
				b.Port = B("5070")
			}
		case "scheme":
			if asciiLower(a.Scheme) == "sip:" {
				b.Scheme = B("sips:")
			} else {
				b.Scheme = B("sip:")
			}
		case "user":
			b.User = append(append(B{}, a.User...), 'q')
		case "user-case":
			b.User = flipFirstLetter(a.User)
			if bytes.Equal(b.User, a.User) {
				b.User = append(append(B{}, a.User...), 'q')
				c.Rel = "changed:user"
			}
		case "pass":
			b.Pass = append(append(B{}, a.Pass...), 'q')
		case "pass-case":
			b.Pass = flipFirstLetter(a.Pass)
			if bytes.Equal(b.Pass, a.Pass) {
				b.Pass = append(append(B{}, a.Pass...), 'q')
				c.Rel = "changed:pass"
			}
		case "param-value":
			for i, p := range b.Params {
				if p.HasEq && len(p.Val) > 0 {
					b.Params[i].Val = append(append(B{}, p.Val...), 'q')
					break
				}
			}
		case "onesided-user", "onesided-ttl", "onesided-method", "onesided-maddr":
			n := comp[len("onesided-"):]
			if hasParam(n) {
				// already on both sides: remove it from b
				var ps []KV
				for _, p := range b.Params {
					if asciiLower(p.Name) != n {
						ps = append(ps, p)
					}
				}
				b.Params = ps
			} else {
				b.Params = append(b.Params, KV{Name: recase(t, n), HasEq: true, Val: B("v1")})
			}
		case "hdr-value":
			b.Hdrs[0].HasEq = true
			b.Hdrs[0].Val = append(append(B{}, b.Hdrs[0].Val...), 'q')
		case "hdr-name":
			b.Hdrs[0].Name = append(append(B{}, b.Hdrs[0].Name...), 'q')
			for _, h := range a.Hdrs {
				if asciiLower(h.Name) == asciiLower(b.Hdrs[0].Name) {
					b.Hdrs[0].Name = append(b.Hdrs[0].Name, "zz9"...)
				}
			}
		case "hdr-added":
			b.HasHdrs = true
			b.Hdrs = append(b.Hdrs, KV{Name: B("zzadded"), HasEq: true, Val: B("1")})
		case "onesided-beyond-100":
			// both URIs get the same 100+ ordinary parameters; only b has a user/ttl/method/maddr one after them
			var many []KV
			n := rapid.IntRange(99, 103).Draw(t, "nmany")
			for i := 0; i < n; i++ {
				many = append(many, KV{Name: B(fmt.Sprintf("zp%d", i)), HasEq: true, Val: B(fmt.Sprintf("%d", i))})
			}
			var keep []KV
			for _, p := range a.Params {
				switch asciiLower(p.Name) {
				case "user", "ttl", "method", "maddr":
				default:
					if ln := asciiLower(p.Name); len(ln) >= 2 && ln[:2] == "zp" {
						continue // would duplicate one of the padding names (duplicate names are outside the property)
					}
					keep = append(keep, p)
				}
			}
			c.A.Params = append(append([]KV{}, many...), keep...)
			b.Params = append(append(append([]KV{}, many...), keep...), KV{Name: recase(t, pick(t, "special", "user", "ttl", "method", "maddr")), HasEq: true, Val: B("v")})
		}
	default:
		c.Rel = "unrelated"
		b = genURISpec(t)
	}
	c.Bb = b
	return c
}

func flipFirstLetter(b B) B {
	o := append(B{}, b...)
	for i, ch := range o {
		if f := flipCase(ch); f != ch {
			o[i] = f
			return o
		}
	}
	return o
}

var C15Cmp = Register(&Check[CaseURIPair]{Prop: "C15", Name: "C15.cmp", Gen: genURIPair, Eval: evalURIPair})

// ---------- C18 ----------

// CaseReloc: a URI, a target offset and a span length.
type CaseReloc struct {
	U    B   `json:"uri"`
	Off  int `json:"off"`  // target offset; -1 = the largest legal one (text ends at 65,535)
	Span int `json:"span"` // span length offered at the target
	Pre  int `json:"pre"`  // > 0: the parsed URI is first moved to this offset (exact span), then relocated from there
}

func lastNonEmptyEnd(u *sipsp.PsipURI) (int, bool) {
	for _, f := range []sipsp.PField{u.Headers, u.Params, u.Port, u.Host, u.Pass, u.User} {
		if f.Len > 0 {
			return int(f.Offs) + int(f.Len), true
		}
	}
	return 0, false
}

func evalReloc(c CaseReloc) Result {
	in := []byte(c.U)
	var u sipsp.PsipURI
	if e, _ := sipsp.ParseURI(in, &u); e != 0 {
		return Result{Skip: true}
	}
	if u.URIType == sipsp.TELuri && bytes.IndexByte(in, '@') >= 0 {
		return Result{Skip: true} // a tel: URI with '@' is outside the stated form (see C14)
	}
	n := len(in)
	off := c.Off
	if off < 0 {
		off = 65535 - n
	}
	span := c.Span
	if off+span > 65535 {
		span = 65535 - off
	}
	if off < 0 || span < 0 {
		return Result{Skip: true}
	}
	nonEmpty := 0
	for _, f := range []sipsp.PField{u.User, u.Pass, u.Host, u.Port, u.Params, u.Headers} {
		if f.Len > 0 {
			nonEmpty++
		}
	}
	classes := []string{}
	// views on the original
	end, okk := lastNonEmptyEnd(&u)
	long := u.Long()
	if !okk || int(long.Offs) != int(u.Scheme.Offs) || int(long.Offs)+int(long.Len) != end {
		return viol("Long() = [%d,%d), want scheme start %d to the end of the last non-empty component %d\nuri=%s", long.Offs, int(long.Offs)+int(long.Len), u.Scheme.Offs, end, c.U)
	}
	if !bytes.Equal(u.Flat(in), in[u.Scheme.Offs:end]) {
		return viol("Flat() = %q, want %q\nuri=%s", u.Flat(in), in[u.Scheme.Offs:end], c.U)
	}
	short := u.Short()
	wantShortEnd := -1
	switch {
	case u.Port.Len > 0:
		wantShortEnd = int(u.Port.Offs) + int(u.Port.Len)
	case u.Host.Len > 0:
		wantShortEnd = int(u.Host.Offs) + int(u.Host.Len)
	case u.User.Len > 0:
		wantShortEnd = int(u.User.Offs) + int(u.User.Len)
	}
	if wantShortEnd >= 0 {
		if int(short.Offs) != int(u.Scheme.Offs) || int(short.Offs)+int(short.Len) != wantShortEnd {
			return viol("Short() = [%d,%d), want [%d,%d) (stops at port/host, user for tel:)\nuri=%s", short.Offs, int(short.Offs)+int(short.Len), u.Scheme.Offs, wantShortEnd, c.U)
		}
		if short.Offs != long.Offs || short.Len > long.Len {
			return viol("Short() %v is not a prefix of Long() %v\nuri=%s", short, long, c.U)
		}
	}
	tr := u
	tr.Truncate()
	want := u
	want.Params, want.Headers = sipsp.PField{}, sipsp.PField{}
	if tr != want {
		return viol("Truncate() changed more (or less) than Params and Headers: %+v, want %+v\nuri=%s", tr, want, c.U)
	}
	// a URI that already lives at an offset > 0 (relocated before) must behave the same
	if c.Pre > 0 && c.Pre+n <= 65535 {
		if !u.AdjustOffs(sipsp.PField{Offs: sipsp.OffsT(c.Pre), Len: sipsp.OffsT(n)}) {
			return viol("AdjustOffs to offset %d with the exact span %d refused\nuri=%s", c.Pre, n, c.U)
		}
		in = append(bytes.Repeat([]byte{'%'}, c.Pre), in...)
		classes = append(classes, "relocated-twice")
	}
	// relocation
	target := make([]byte, off+maxInt(span, n))
	for i := range target {
		target[i] = '#'
	}
	copy(target[off:], in[len(in)-n:])
	moved := u
	res := moved.AdjustOffs(sipsp.PField{Offs: sipsp.OffsT(off), Len: sipsp.OffsT(span)})
	if span >= n {
		classes = append(classes, "span>=len")
		if !res {
			return viol("AdjustOffs to offset %d with span %d refused although the URI is only %d bytes\nuri=%s", off, span, n, c.U)
		}
		type pair struct {
			name string
			a, b sipsp.PField
		}
		for _, p := range []pair{{"Scheme", u.Scheme, moved.Scheme}, {"User", u.User, moved.User}, {"Pass", u.Pass, moved.Pass},
			{"Host", u.Host, moved.Host}, {"Port", u.Port, moved.Port}, {"Params", u.Params, moved.Params}, {"Headers", u.Headers, moved.Headers}} {
			if p.a.Len != p.b.Len {
				return viol("AdjustOffs(%d,%d): %s length changed from %d to %d\nuri=%s", off, span, p.name, p.a.Len, p.b.Len, c.U)
			}
			if p.a.Len == 0 {
				// present but empty (e.g. the parameters of "sip:h;"): its position moves with the rest
				if p.a.Offs != 0 && int(p.b.Offs)-off != int(p.a.Offs)-int(u.Scheme.Offs) {
					return viol("AdjustOffs(%d,%d): the empty %s component stays at offset %d (was %d relative to the URI start %d)\nuri=%s", off, span, p.name, p.b.Offs, p.a.Offs, u.Scheme.Offs, c.U)
				}
				continue
			}
			if int(p.b.Offs)+int(p.b.Len) > len(target) || !bytes.Equal(p.b.Get(target), p.a.Get(in)) || int(p.b.Offs)-off != int(p.a.Offs)-int(u.Scheme.Offs) {
				return viol("AdjustOffs(%d,%d): %s moved to (%d,%d) which does not denote the same bytes %q at the new position\nuri=%s", off, span, p.name, p.b.Offs, p.b.Len, p.a.Get(in), c.U)
			}
		}
		if moved.URIType != u.URIType || moved.PortNo != u.PortNo {
			return viol("AdjustOffs changed URIType/PortNo\nuri=%s", c.U)
		}
	} else {
		classes = append(classes, "span<len")
		if res {
			return viol("AdjustOffs to offset %d accepted a span of %d bytes for a URI of %d bytes\nuri=%s", off, span, n, c.U)
		}
		if moved != u {
			return viol("AdjustOffs refused the span (%d < %d) but modified the structure: %+v, was %+v\nuri=%s", span, n, moved, u, c.U)
		}
	}
	return ok(nonEmpty >= 3 && off > 0, classes...)
}

var C18Reloc = Register(&Check[CaseReloc]{
	Prop: "C18", Name: "C18.reloc",
	Gen: func(t *rapid.T) CaseReloc {
		var c CaseReloc
		if rapid.IntRange(0, 3).Draw(t, "mut") == 0 {
			c.U = mutate(t, genURIFull(t), 2)
		} else {
			c.U = genURIFull(t)
		}
		n := len(c.U)
		switch weighted(t, "off_k", 2, 3, 3, 1) {
		case 0:
			c.Off = 0
		case 1:
			c.Off = rapid.IntRange(1, 16).Draw(t, "off")
		case 2:
			c.Off = rapid.IntRange(17, 60000).Draw(t, "off")
		default:
			c.Off = -1
		}
		switch weighted(t, "span_k", 3, 3, 3, 1) {
		case 0:
			c.Span = n
		case 1:
			c.Span = rapid.IntRange(0, n).Draw(t, "span")
		case 2:
			c.Span = n + rapid.IntRange(0, 40).Draw(t, "extra")
		default:
			c.Span = maxInt(0, n-1)
		}
		if rapid.IntRange(0, 2).Draw(t, "pre") == 0 {
			c.Pre = rapid.IntRange(1, 3000).Draw(t, "preoff")
		}
		return c
	},
	Eval: evalReloc,
})

// C11Reloc: the relocation clause of C11 - a parsed URI whose text starts at offset k > 0
// relocates exactly like the same URI at offset 0.
var C11Reloc = Register(&Check[CaseReloc]{
	Prop: "C11", Name: "C11.reloc",
	Gen: func(t *rapid.T) CaseReloc {
		c := CaseReloc{U: genURIFull(t)}
		n := len(c.U)
		c.Pre = pick(t, "pre", 1, 2, 7, 100, 4000, 65535-n)
		c.Off = pick(t, "off", 0, 1, 5, 300, 65535-n-3, -1)
		if c.Off > 65535-n {
			c.Off = 0
		}
		c.Span = pick(t, "span", n, n, n+1, n+9, n-1, 0)
		if c.Span < 0 {
			c.Span = 0
		}
		return c
	},
	Eval: evalReloc,
})

func maxInt(a, b int) int {
	if a > b {
		return a
	}
	return b
}
