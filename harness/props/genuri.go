package props

// genuri.go: structured sip:/sips:/tel: URIs.

import (
	"bytes"
	"fmt"

	"pgregory.net/rapid"
)

type KV struct {
	Name  B    `json:"n"`
	HasEq bool `json:"eq"`
	Val   B    `json:"v"`
}

// URISpec is a URI by construction.
type URISpec struct {
	Scheme  B    `json:"scheme"` // with the colon, any letter case
	HasUser bool `json:"has_user"`
	User    B    `json:"user"`
	HasPass bool `json:"has_pass"`
	Pass    B    `json:"pass"`
	Host    B    `json:"host"`
	HasPort bool `json:"has_port"`
	Port    B    `json:"port"`
	Params  []KV `json:"params"`
	HasHdrs bool `json:"has_hdrs"`
	Hdrs    []KV `json:"hdrs"`
}

func renderKVs(w *bytes.Buffer, kvs []KV, sep byte) {
	for i, kv := range kvs {
		if i > 0 {
			w.WriteByte(sep)
		}
		w.Write(kv.Name)
		if kv.HasEq {
			w.WriteByte('=')
			w.Write(kv.Val)
		}
	}
}

func (u URISpec) ParamsText() []byte {
	var w bytes.Buffer
	renderKVs(&w, u.Params, ';')
	return w.Bytes()
}

func (u URISpec) HdrsText() []byte {
	var w bytes.Buffer
	renderKVs(&w, u.Hdrs, '&')
	return w.Bytes()
}

func (u URISpec) Render() []byte {
	var w bytes.Buffer
	w.Write(u.Scheme)
	if u.HasUser {
		w.Write(u.User)
		if u.HasPass {
			w.WriteByte(':')
			w.Write(u.Pass)
		}
		w.WriteByte('@')
	}
	w.Write(u.Host)
	if u.HasPort {
		w.WriteByte(':')
		w.Write(u.Port)
	}
	if len(u.Params) > 0 {
		w.WriteByte(';')
		renderKVs(&w, u.Params, ';')
	}
	if u.HasHdrs {
		w.WriteByte('?')
		renderKVs(&w, u.Hdrs, '&')
	}
	return w.Bytes()
}

const uriTokAlphabet = "abcdefghijklmnopqrstuvwxyzABCXYZ0123456789-_.!~*'()%"

var knownURIParams = []string{"transport", "user", "method", "ttl", "maddr", "lr"}

func genURIHost(t *rapid.T) B {
	switch weighted(t, "host_k", 4, 2, 2) {
	case 0:
		var w bytes.Buffer
		n := rapid.IntRange(1, 3).Draw(t, "labels")
		for i := 0; i < n; i++ {
			if i > 0 {
				w.WriteByte('.')
			}
			w.Write(genFrom(t, "label", "abcdefghijkxyzABC0123456789-", 1, 8))
		}
		return w.Bytes()
	case 1:
		return B(fmt.Sprintf("%d.%d.%d.%d", rapid.IntRange(0, 255).Draw(t, "ip"), rapid.IntRange(0, 255).Draw(t, "ip"),
			rapid.IntRange(0, 255).Draw(t, "ip"), rapid.IntRange(0, 255).Draw(t, "ip")))
	default:
		return B(pick(t, "ip6", "[::1]", "[2001:db8::1]", "[fe80::1:2:3:4]", "[1:2:3:4:5:6:7:8]", "[::]"))
	}
}

// genURISpec draws a well-formed URI with duplicate-free parameter and header names.
func genURISpec(t *rapid.T) URISpec {
	var u URISpec
	u.Scheme = recase(t, pick(t, "scheme", "sip:", "sip:", "sip:", "sips:", "tel:"))
	if rapid.IntRange(0, 3).Draw(t, "hasuser") != 0 {
		u.HasUser = true
		ualpha := "abcdefxyzABC0123456789-_.!~*'()%+$,"
		if rapid.IntRange(0, 3).Draw(t, "userdelims") == 0 {
			ualpha += ";?&=/"
		}
		u.User = genFrom(t, "user", ualpha, 1, 10)
		if rapid.IntRange(0, 3).Draw(t, "haspass") == 0 {
			u.HasPass = true
			u.Pass = genFrom(t, "pass", "abcxyzABC0123456789-_.!~*'()%&=+$,", 0, 8)
		}
	}
	u.Host = genURIHost(t)
	if rapid.IntRange(0, 2).Draw(t, "hasport") == 0 {
		u.HasPort = true
		switch weighted(t, "port_k", 6, 2) {
		case 0:
			u.Port = B(fmt.Sprintf("%d", rapid.IntRange(0, 65535).Draw(t, "port")))
		default:
			u.Port = B(fmt.Sprintf("%0*d", rapid.IntRange(1, 7).Draw(t, "portw"), rapid.IntRange(0, 65535).Draw(t, "port")))
		}
	}
	np := rapid.IntRange(0, 4).Draw(t, "nparams")
	if oneIn(t, "nparams_needle", 40) {
		np = manyN(t, "nparams_many", 110)
	}
	seen := map[string]bool{}
	for i := 0; i < np; i++ {
		var kv KV
		if rapid.Bool().Draw(t, "knownparam") {
			kv.Name = recase(t, pick(t, "pname", knownURIParams...))
		} else {
			kv.Name = genFrom(t, "pname_r", uriTokAlphabet+"[]/:&+$", 1, 8)
		}
		l := asciiLower(kv.Name)
		if seen[l] {
			continue
		}
		seen[l] = true
		if rapid.IntRange(0, 4).Draw(t, "peq") != 0 {
			kv.HasEq = true
			kv.Val = genFrom(t, "pval", uriTokAlphabet+"[]/:&+$", 0, 8)
		}
		u.Params = append(u.Params, kv)
	}
	if rapid.IntRange(0, 3).Draw(t, "hashdrs") == 0 {
		u.HasHdrs = true
		nh := rapid.IntRange(1, 3).Draw(t, "nhdrs")
		if oneIn(t, "nhdrs_needle", 15) {
			nh = manyN(t, "nhdrs_many", 110)
		}
		seenh := map[string]bool{}
		for i := 0; i < nh; i++ {
			var kv KV
			kv.Name = genFrom(t, "hname", uriTokAlphabet+"[]/?:+$", 1, 8)
			l := asciiLower(kv.Name)
			if seenh[l] {
				continue
			}
			seenh[l] = true
			if rapid.IntRange(0, 5).Draw(t, "heq") != 0 {
				kv.HasEq = true
				kv.Val = genFrom(t, "hval", uriTokAlphabet+"[]/?:+$", 0, 8)
			}
			u.Hdrs = append(u.Hdrs, kv)
		}
	}
	return u
}

func genURIFull(t *rapid.T) []byte { return genURISpec(t).Render() }
