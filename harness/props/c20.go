package props

// C20: IPv4 detection is sound and complete; decoded address bytes are exact.

import (
	"fmt"

	"github.com/intuitivelabs/sipsp"
	"pgregory.net/rapid"
)

// refIP4Prefix: independent reference for "the text starts with an IPv4 address".
// verdict: 0 ok/end of input, MoreValues followed by digit, BadChar followed by other,
// MoreBytes truncated prefix, Bad not an address.
func refIP4Prefix(s []byte) (bool, int, sipsp.ErrorHdr, [4]byte) {
	var ip [4]byte
	i := 0
	for g := 0; g < 4; g++ {
		start, val := i, 0
		for i < len(s) && isDigit(s[i]) && i-start < 3 && val*10+int(s[i]-'0') <= 255 {
			val = val*10 + int(s[i]-'0')
			i++
		}
		if i == start {
			if i == len(s) {
				return false, i, sipsp.ErrHdrMoreBytes, ip
			}
			return false, i, sipsp.ErrHdrBad, ip
		}
		ip[g] = byte(val)
		if g < 3 {
			if i == len(s) {
				return false, i, sipsp.ErrHdrMoreBytes, ip
			}
			if s[i] != '.' {
				return false, i, sipsp.ErrHdrBad, ip
			}
			i++
		}
	}
	switch {
	case i == len(s):
		return true, i, sipsp.ErrHdrOk, ip
	case isDigit(s[i]):
		return true, i, sipsp.ErrHdrMoreValues, ip
	}
	return true, i, sipsp.ErrHdrBadChar, ip
}

// matchIP4At: does a four-group address start exactly at s[i:], using any split of
// the digit runs (groups of 1..3 digits <= 255)? Returns whether one exists.
func matchIP4At(s []byte, i int) bool {
	var rec func(pos, g int) bool
	rec = func(pos, g int) bool {
		val := 0
		for l := 1; l <= 3 && pos+l <= len(s); l++ {
			c := s[pos+l-1]
			if !isDigit(c) {
				break
			}
			val = val*10 + int(c-'0')
			if val > 255 {
				break
			}
			if g == 3 {
				return true
			}
			if pos+l < len(s) && s[pos+l] == '.' && rec(pos+l+1, g+1) {
				return true
			}
		}
		return false
	}
	return rec(i, 0)
}

func refContainsIP4(s []byte) bool {
	for i := range s {
		if matchIP4At(s, i) {
			return true
		}
	}
	return false
}

// exactIP4: s is exactly four dot-separated groups of 1..3 digits <= 255; returns the bytes.
func exactIP4(s []byte) (bool, [4]byte) {
	okk, stop, e, ip := refIP4Prefix(s)
	return okk && stop == len(s) && e == 0, ip
}

func evalIP4(c CaseText) Result {
	s := []byte(c.S)
	dots, near := 0, false
	run := 0
	for i := 0; i <= len(s); i++ {
		if i < len(s) && isDigit(s[i]) {
			run++
			continue
		}
		if run == 4 {
			near = true
		}
		if run == 3 {
			v := int(s[i-3]-'0')*100 + int(s[i-2]-'0')*10 + int(s[i-1]-'0')
			if v >= 250 && v <= 299 {
				near = true
			}
		}
		run = 0
		if i < len(s) && s[i] == '.' {
			dots++
		}
	}
	// prefix test
	var d [4]byte
	gok, gstop, ge := sipsp.IP4Prefix(s, d[:])
	rok, rstop, re, rip := refIP4Prefix(s)
	if gok != rok || gstop != rstop || ge != re {
		return viol("IP4Prefix(%s) = (%v, %d, %v); reference (%v, %d, %v)", c.S, gok, gstop, ge, rok, rstop, re)
	}
	if gok && d != rip {
		return viol("IP4Prefix(%s) decoded %v, the groups are %v", c.S, d, rip)
	}
	if gok2, gstop2, ge2 := sipsp.IP4Prefix(s, nil); gok2 != gok || gstop2 != gstop || ge2 != ge {
		return viol("IP4Prefix(%s) depends on the destination buffer: (%v,%d,%v) vs (%v,%d,%v)", c.S, gok2, gstop2, ge2, gok, gstop, ge)
	}
	// destination buffers of other sizes: what fits is filled (a prefix of the address), nothing beyond 4 bytes is touched
	if gok {
		for _, l := range []int{1, 2, 3, 6} {
			db := []byte{0xaa, 0xaa, 0xaa, 0xaa, 0xaa, 0xaa}[:l]
			if k2, s2, e2 := sipsp.IP4Prefix(s, db); k2 != gok || s2 != gstop || e2 != ge {
				return viol("IP4Prefix(%s) with a %d-byte destination: (%v,%d,%v), with 4 bytes (%v,%d,%v)", c.S, l, k2, s2, e2, gok, gstop, ge)
			}
			for i := 0; i < l; i++ {
				want := byte(0xaa)
				if i < 4 {
					want = rip[i]
				}
				if db[i] != want {
					return viol("IP4Prefix(%s) with a %d-byte destination wrote %v, the address is %v", c.S, l, db, rip)
				}
			}
		}
	}
	// search
	var d2 [4]byte
	found, off, ln := sipsp.ContainsIP4(s, d2[:])
	want := refContainsIP4(s)
	if found != want {
		return viol("ContainsIP4(%s) = %v; the reference matcher says %v", c.S, found, want)
	}
	if found {
		if off < 0 || ln < 0 || off+ln > len(s) {
			return viol("ContainsIP4(%s) reports span (%d,%d) outside the text", c.S, off, ln)
		}
		ex, ip := exactIP4(s[off : off+ln])
		if !ex {
			return viol("ContainsIP4(%s) reports span (%d,%d) = %q which is not an IPv4 address", c.S, off, ln, s[off:off+ln])
		}
		if ip != d2 {
			return viol("ContainsIP4(%s): span %q but decoded bytes %v", c.S, s[off:off+ln], d2)
		}
	}
	// call-id signature position flags
	sig, _ := sipsp.GetCallIDSig(s)
	posFlags := sig & (sipsp.SigIPStartF | sipsp.SigIPEndF | sipsp.SigIPMiddleF)
	if found {
		wantF := sipsp.SigIPMiddleF
		if off == 0 {
			wantF = sipsp.SigIPStartF
		} else if off+ln == len(s) {
			wantF = sipsp.SigIPEndF
		}
		if posFlags != wantF {
			return viol("GetCallIDSig(%s): IP position flags %#x, the address %q at %d gives %#x", c.S, uint(posFlags), s[off:off+ln], off, uint(wantF))
		}
	} else {
		hasColon := false
		for _, ch := range s {
			if ch == ':' {
				hasColon = true
			}
		}
		if !hasColon && posFlags != 0 {
			return viol("GetCallIDSig(%s): IP position flags %#x but the text holds no address", c.S, uint(posFlags))
		}
	}
	cl := "no-ip"
	if found {
		cl = "has-ip"
	}
	return ok(dots >= 3 && near, cl)
}

var C20IP4 = Register(&Check[CaseText]{
	Prop: "C20", Name: "C20.ip4",
	Gen: func(t *rapid.T) CaseText {
		var s []byte
		n := rapid.IntRange(1, 8).Draw(t, "parts")
		for i := 0; i < n; i++ {
			switch weighted(t, "part_k", 3, 3, 2, 2, 1) {
			case 0: // valid address
				s = append(s, fmt.Sprintf("%d.%d.%d.%d", rapid.IntRange(0, 255).Draw(t, "o"), rapid.IntRange(0, 255).Draw(t, "o"),
					rapid.IntRange(0, 255).Draw(t, "o"), rapid.IntRange(0, 255).Draw(t, "o"))...)
			case 1: // near-valid: one group out of range / too long / missing
				g := []string{fmt.Sprint(rapid.IntRange(0, 255).Draw(t, "o")), fmt.Sprint(rapid.IntRange(0, 255).Draw(t, "o")),
					fmt.Sprint(rapid.IntRange(0, 255).Draw(t, "o")), fmt.Sprint(rapid.IntRange(0, 255).Draw(t, "o"))}
				k := rapid.IntRange(0, 3).Draw(t, "which")
				g[k] = pick(t, "bad", "256", "260", "299", "300", "999", "1000", "2550", "0256", "", "25a", "00", "000", "0000")
				s = append(s, (g[0] + "." + g[1] + "." + g[2] + "." + g[3])...)
			case 2:
				s = append(s, genFrom(t, "digs", "0123456789.", 1, 12)...)
			case 3:
				s = append(s, genFrom(t, "junk", "abcxyz-_@:[]\xb0\xb4\xb9\xae\xff", 1, 10)...)
			default:
				s = append(s, pick(t, "sep", ".", "..", "-", "@", ":", "", "x")...)
			}
		}
		return CaseText{S: s}
	},
	Eval: evalIP4,
})
