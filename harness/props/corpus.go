package props

import "strings"

// corpus.go: a fixed set of realistic messages (modelled on the shapes used in
// the repository's parse_msg_test.go plus folds, quotes, escapes, compact
// forms, repeated headers, multi-value headers).

var corpusRaw = []string{
	// 0 plain INVITE with body
	"INVITE sip:x@y.com SIP/2.0\r\nFrom: <sip:a@foo.bar>;tag=1234\r\nTo:<sip:x@y.com>\r\nCall-ID: a84b4c76e66710\r\n" +
		"CSeq: 314159 INVITE\r\nVia: SIP/2.0/UDP 1.2.3.4;branch=z9hG4bKnashds8\r\nMax-Forwards: 70\r\n" +
		"Date: Thu, 21 Feb 2002 13:02:03 GMT\r\nContact: <sip:a@1.2.3.4:5060>\r\nContent-Length: 12\r\n\r\nv=0\r\no=A 1\r\n",
	// 1 REGISTER with star contact
	"REGISTER sip:b@foo.bar SIP/2.0\r\nFrom: <sip:b@foo.bar>;tag=1234\r\nTo:<sip:b@foo.bar>\r\nCall-ID: a84b4c76e66710\r\n" +
		"CSeq: 314159 REGISTER\r\nVia: SIP/2.0/UDP 1.2.3.4;branch=z9hG4bKnashds8\r\nMax-Forwards: 70\r\nContact: *\r\n" +
		"Expires: 0\r\nContent-Length: 0\r\n\r\n",
	// 2 repeated From/CSeq, compact via, PAI, multi contact with fold
	"CANCEL sip:x@y.com SIP/2.0\r\nFrom: <sip:b@foo.bar>;tag=1234\r\nTo:<sip:x@y.com>\r\nCall-ID: a84b4c76e66710\r\n" +
		"From: Second From <x@q.b>;tag=5678\r\nCSeq: 314159 INVITE\r\nCSeq: 914159 CANCEL\r\n" +
		"v: SIP/2.0/UDP 1.2.3.4;branch=z9hG4bKnashds8\r\nMax-Forwards: 70\r\nP-Asserted-Identity: \"Test\" <sip:b@foo.bar>\r\n" +
		"Contact: sip:a@foo.bar:5060,\"A B\" <sip:ab@x.y>;expires=60,\r\n <sip:foo.bar>;q=0.9\r\nExpires: 300 \r\nContent-Length: 0\r\n\r\n",
	// 3 reply with three PAI headers and several contacts
	"SIP/2.0 200 Ok\r\nFrom: <sip:b@foo.bar>;tag=1234\r\nTo:<sip:x@y.com>;tag=5678\r\nCall-ID: a84b4c76e66710\r\n" +
		"CSeq: 314159 INVITE\r\nVia: SIP/2.0/UDP 1.2.3.4;branch=z9hG4bKnashds8\r\n" +
		"P-Asserted-Identity: \"Test\" <sip:a@foo.bar>\r\nP-Asserted-Identity: \"Test\" <sip:b@foo.bar>\r\n" +
		"P-Asserted-Identity: \"Test\" <sip:c@foo.bar>, tel:1234\r\n" +
		"Contact: sip:a@foo.bar:5060,\"A B\" <sip:ab@x.y>;expires=60,\r\n <sip:foo.bar>;q=0.9\r\nContact: <sip:z@z.z>;expires=7200;q=0.25\r\n" +
		"Expires: 300 \r\nContent-Length: 5\r\n\r\nhello",
	// 4 compact forms, LF only, WS before colon, folds in values
	"OPTIONS sip:carol@chicago.com SIP/2.0\nv: SIP/2.0/TCP pc33.atlanta.com\n ;branch=z9hG4bKhjhs8ass877\n" +
		"f : \"Al \\\"ice\\\\\" <sip:alice@atlanta.com>\n\t;tag=1928301774\nt\t:\tsip:carol@chicago.com\ni: a84b4c76e66710@pc33\n" +
		"CSeq:\n 63104\n OPTIONS\nm: <sip:alice@pc33.atlanta.com> ; expires = 3600 ; Q=0.123\nl: 0\n\n",
	// 5 lone CR line ends
	"BYE sip:x@y.com SIP/2.0\rFrom: sip:b@foo.bar;tag=a\rTo: sip:x@y.com;tag=b\rCall-ID: 1@h\rCSeq: 2 BYE\rContent-Length: 0\r\r",
	// 6 no Content-Length, body to end of buffer
	"MESSAGE sip:u@d SIP/2.0\r\nFrom: <sip:a@b>;tag=1\r\nTo: <sip:u@d>\r\nCall-ID: x\r\nCSeq: 1 MESSAGE\r\n\r\nbody without length",
	// 7 reply with empty reason and quoted params
	"SIP/2.0 404 \r\nVia: SIP/2.0/UDP h;branch=z9hG4bK1;received=\"a;b,c\"\r\nFrom: \"a, b\" <sip:a@b>;tag=\"q,;\"\r\n" +
		"To: <sip:c@d>;x=\"\\\"\";tag=z\r\nCall-ID: 9\r\nCSeq: 9 INVITE\r\nContent-Length: 0\r\n\r\n",
	// 8 many headers (more than the built-in 10) and many contacts (more than 10)
	"REGISTER sip:r SIP/2.0\r\nVia: SIP/2.0/UDP a;branch=z9hG4bKa\r\nVia: SIP/2.0/UDP b;branch=z9hG4bKb\r\nX-1: 1\r\nX-2: 2\r\nX-3: 3\r\n" +
		"From: <sip:a@r>;tag=t\r\nTo: <sip:a@r>\r\nCall-ID: c@r\r\nCSeq: 10 REGISTER\r\nX-4: 4\r\nX-5: 5\r\n" +
		"Contact: <sip:1@h>;expires=10, <sip:2@h>;expires=20, <sip:3@h>;expires=30, <sip:4@h>, <sip:5@h>;q=1\r\n" +
		"Contact: <sip:6@h>, <sip:7@h>, <sip:8@h>;expires=4294967295, <sip:9@h>, <sip:10@h>, <sip:11@h>;expires=5, <sip:12@h>\r\n" +
		"User-Agent: ua/1.0 (x)\r\nExpires: 3600\r\nMax-Forwards: 70\r\nContent-Length: 0\r\n\r\n",
	// 9 INVITE with Route/Record-Route, lr params
	"INVITE sip:bob@biloxi.com SIP/2.0\r\nRoute: <sip:p1.example.com;lr>, <sip:p2.example.com;lr>\r\n" +
		"Record-Route: <sip:p3.example.com;lr>\r\nVia: SIP/2.0/UDP pc33.atlanta.com;branch=z9hG4bK776asdhds\r\nMax-Forwards: 70\r\n" +
		"To: Bob <sip:bob@biloxi.com>\r\nFrom: Alice <sip:alice@atlanta.com>;tag=1928301774\r\nCall-ID: a84b4c76e66710@pc33.atlanta.com\r\n" +
		"CSeq: 314159 INVITE\r\nContact: <sip:alice@pc33.atlanta.com>\r\nUser-Agent: X\r\nContent-Type: application/sdp\r\nContent-Length: 4\r\n\r\nv=0\n",
	// 10 minimal reply
	"SIP/2.0 100 Trying\r\nVia: SIP/2.0/UDP a\r\n\r\n",
	// 11 error: bad header
	"INVITE sip:a SIP/2.0\r\nFrom: <sip:a\r\n\r\n",
	// 12 error: CSeq too big
	"INVITE sip:a SIP/2.0\r\nCSeq: 99999999999 INVITE\r\n\r\n",
	// 13 content-length larger than the body
	"INVITE sip:a SIP/2.0\r\nFrom: <sip:a@b>;tag=1\r\nContent-Length: 50\r\n\r\nshort",
	// 14 empty header values, unknown headers
	"NOTIFY sip:a SIP/2.0\r\nSubject:\r\nX:   \r\nY: \r\n \r\nEvent: presence\r\nCall-ID: z\r\nContent-Length:0\r\n\r\n",
	// 15 bare URI from with params and folded to
	"SUBSCRIBE sip:a SIP/2.0\r\nFrom: sip:a@b;tag=88;x=y\r\nTo: C D E <sip:c@d>\r\n ;tag=77\r\nCall-ID: 1-2-3@1.2.3.4\r\nCSeq: 7 SUBSCRIBE\r\n" +
		"Contact: sip:a@1.2.3.4;expires=300\r\nExpires: 600\r\nl: 0\r\n\r\n",
}

func corpusMsgs() [][]byte {
	var o [][]byte
	for _, m := range corpusRaw {
		o = append(o, []byte(m))
	}
	// variants with other line ends for the first few (header part only)
	for _, i := range []int{0, 2, 3} {
		m := corpusRaw[i]
		hd, body := m, ""
		if p := strings.Index(m, "\r\n\r\n"); p >= 0 {
			hd, body = m[:p+4], m[p+4:]
		}
		o = append(o, []byte(strings.ReplaceAll(hd, "\r\n", "\n")+body))
	}
	return o
}
