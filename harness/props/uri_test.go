package props

import (
	"bytes"
	"fmt"
	"testing"
)

func TestC14Rapid(t *testing.T) { C14URI.RunRapid(t) }

func TestC14Enum(t *testing.T) {
	n := envInt("VERIF_C14_LEN", 6)
	var jobs []func(emit func(CaseURI) bool)
	var descs []string
	for _, sch := range []string{"sip:", "sips:", "tel:"} {
		sc := uriScope(sch, n)
		descs = append(descs, fmt.Sprintf("ParseURI on %q + every string of <= %d symbols over %q (%d strings)", sch, n, uriAlphabet, sc.Count()))
		for sh := 0; sh < sc.NShards(); sh++ {
			sh := sh
			jobs = append(jobs, func(emit func(CaseURI) bool) {
				sc.Produce(sh, func(b []byte) bool { return emit(CaseURI{U: append(B{}, b...)}) })
			})
		}
	}
	// every letter casing of each scheme in front of a few tails
	descs = append(descs, "all letter casings of sip:/sips:/tel: x 6 tails")
	jobs = append(jobs, func(emit func(CaseURI) bool) {
		for _, sch := range []string{"sip:", "sips:", "tel:"} {
			for _, cs := range allCasings(sch) {
				for _, tail := range []string{"a", "u@h", "u:p@h:5;x=1?h=2", "+123;ext=1", "[::1]:5060", "h;lr"} {
					if !emit(CaseURI{U: B(cs + tail)}) {
						return
					}
				}
			}
		}
	})
	C14URI.RunJobs(t, descs, jobs)
}

func TestC15Rapid(t *testing.T)      { C15Cmp.RunRapid(t) }
func TestC18Rapid(t *testing.T)      { C18Reloc.RunRapid(t) }
func TestC11RelocRapid(t *testing.T) { C11Reloc.RunRapid(t) }

// TestC18Enum: every accepted URI of the small scope x every span 0..len+1 x offsets {0, 1, 7}.
func TestC18Enum(t *testing.T) {
	n := envInt("VERIF_C18_LEN", 5)
	var jobs []func(emit func(CaseReloc) bool)
	var descs []string
	for _, sch := range []string{"sip:", "sips:", "tel:"} {
		sc := uriScope(sch, n)
		descs = append(descs, fmt.Sprintf("relocation/views of every accepted URI %q + <= %d symbols over %q, every span 0..len+1, offsets 0/1/7", sch, n, uriAlphabet))
		for sh := 0; sh < sc.NShards(); sh++ {
			sh := sh
			jobs = append(jobs, func(emit func(CaseReloc) bool) {
				sc.Produce(sh, func(b []byte) bool {
					for _, off := range []int{0, 1, 7} {
						for span := 0; span <= len(b)+1; span++ {
							if !emit(CaseReloc{U: append(B{}, b...), Off: off, Span: span}) {
								return false
							}
						}
					}
					return true
				})
			})
		}
	}
	C18Reloc.RunJobs(t, descs, jobs)
}

func TestC20Rapid(t *testing.T) { C20IP4.RunRapid(t) }

func TestC20Enum(t *testing.T) {
	n := envInt("VERIF_C20_LEN", 8)
	m := envInt("VERIF_C20_DIGLEN", 6)
	var jobs []func(emit func(CaseText) bool)
	var descs []string
	for _, sc := range []Scope{
		{Cfg: Cfg{Kind: "ip4"}, Alphabet: []string{"0", "1", "2", "5", "6", ".", "x"}, MaxLen: n},
		{Cfg: Cfg{Kind: "ip4"}, Alphabet: []string{"0", "1", "2", "3", "4", "5", "6", "7", "8", "9", "."}, MaxLen: m},
		{Cfg: Cfg{Kind: "ip4"}, Prefix: "1.2.", Alphabet: []string{"0", "1", "2", "3", "4", "5", "6", "7", "8", "9", ".", "x"}, MaxLen: m - 1},
		// bytes that only differ from digits / the dot in the high bit or in bit 5 are not digits
		{Cfg: Cfg{Kind: "ip4"}, Alphabet: []string{"1", "9", ".", "\xb1", "\xb9", "\xae", "\x0e", "\x11"}, MaxLen: m + 1},
	} {
		sc := sc
		descs = append(descs, sc.Desc())
		for sh := 0; sh < sc.NShards(); sh++ {
			sh := sh
			jobs = append(jobs, func(emit func(CaseText) bool) {
				sc.Produce(sh, func(b []byte) bool { return emit(CaseText{S: append(B{}, b...)}) })
			})
		}
	}
	descs = append(descs, "one address behind 255 .. 131,072 filler bytes (plain and dotted filler): offsets beyond 8 and 16 bits")
	jobs = append(jobs, func(emit func(CaseText) bool) {
		for _, n := range []int{255, 256, 257, 4095, 4096, 65533, 65534, 65535, 65536, 65537, 65540, 70000, 131072} {
			for _, filler := range []string{"x", "x.", "9.x"} {
				s := append(bytes.Repeat([]byte(filler), n/len(filler)+1)[:n], "y10.0.0.254z"...)
				if !emit(CaseText{S: s}) {
					return
				}
			}
		}
	})
	C20IP4.RunJobs(t, descs, jobs)
}

func TestC17Enum(t *testing.T) {
	allCuts := envInt("VERIF_DEPTH", 0) > 0
	what := "one-shot and one cut in the middle"
	if allCuts {
		what = "every two-step cut"
	}
	C17List.RunShards(t, "every list spec of 0..2 items (two names / empty item x no, empty, token, quoted value x a blank in each of the four whitespace slots; three whitespace kinds for one item) and 3 items without whitespace, x 6 option-flag sets x every terminator they define x entry points, "+what,
		true, 32, func(s int, emit func(CaseTokList) bool) { enumTokSpecs(allCuts, s, 32, emit) })
}
