#!/usr/bin/env python3
import json,sys
for s in json.load(open(sys.argv[1])):
    print("==",s['check'],"evals",s['evaluations'],"skipped",s['skipped'],"nontriv",s['nontrivial'],"distinct",s.get('hash_count',0)+s['enum_nontrivial'],"viol",len(s['violations']), "excluded", s['excluded_known'])
    for k,v in sorted(s['classes'].items()):
        print("   %-40s %d"%(k,v))
    if len(sys.argv)>2:
        for x in s['samples'][:int(sys.argv[2])]:
            print("   sample:",json.dumps(x)[:600])
