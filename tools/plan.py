"""Per-property stage plans for ./check.

A stage is a dict:
  kind   : "rapid" (default) | "enum" | "corpus" | "fuzz"
  test   : Go test function name (regex alternatives allowed: A|B)
  checks : rapid cases per shard        shards : number of shard processes
  counts : check names whose (evaluations+skipped) must reach checks*shards
  env    : extra environment            timeout: seconds
  race   : run with the -race binary    solo   : run alone (uses all cores itself)
"""

ORDER = ["C%02d" % i for i in range(1, 21)]


def prop_index(p):
    return ORDER.index(p) + 1


COMMON_ASSUMPTIONS = [
    "the Go harness is built from /repo's working tree through a module replace; the Go compiler, runtime and rapid v1.3.0 are trusted",
    "sampling evidence: absence of a violation in the generated cases does not establish absence in general",
]

PLAN = {}
NOT_CLAIMED = {}

PLAN["C16"] = dict(
    technique="exhaustive enumeration (casings, one-edit neighbours, all strings <= 3 bytes) + rapid generation against a reference table",
    level_text=("Exploration with exhaustive parts: every case variant and every one-edit neighbour of every table name and "
                "every byte string of length 0..3 is looked up and compared with an independent reference table, so the "
                "'if and only if' is decided completely inside those sub-spaces; longer non-members are sampled."),
    rule=("names are enumerated (all 2^len casings of every table name, all one-edit neighbours over the 256-byte "
          "alphabet, all byte strings of length 0..3) and generated (re-cased / 1-3 edits / same hash bucket / raw "
          "bytes / random tokens), compared with a reference table transcribed from the property statement; "
          "non-trivial = the empty name, a table member in non-canonical case, or a non-member sharing the "
          "first-byte hash bits and length mod 4 with a member; distinct = different name (enumerations are "
          "duplicate-free per part, generated cases de-duplicated by hash)"),
    assumptions=["reference tables are transcribed by hand from the statement of C16 and RFC 3261 method names"],
    quick=[
        dict(kind="enum", test="TestC16Enum", solo=True, timeout=600),
        dict(test="TestC16HdrRapid", checks=20000, shards=2, counts=["C16.hdr"]),
        dict(test="TestC16MthRapid", checks=20000, shards=2, counts=["C16.mth"]),
        dict(test="TestC16ParseRapid", checks=20000, shards=2, counts=["C16.parse"]),
    ],
    thorough=[
        dict(kind="enum", test="TestC16Enum", solo=True, timeout=3000, env={"VERIF_C16_MAXLEN": 4}),
        dict(test="TestC16HdrRapid", checks=3000000, shards=5, counts=["C16.hdr"]),
        dict(test="TestC16MthRapid", checks=3000000, shards=5, counts=["C16.mth"]),
        dict(test="TestC16ParseRapid", checks=3000000, shards=5, counts=["C16.parse"]),
    ],
)

_DIFF_NOTE = ("Differential oracle: the code under test is compared with itself under a different schedule / continuation, so a "
              "disagreement is a violation by definition; what is compared is exactly what a caller can read back "
              "(verdict, offset, predicates, every exported field, accessor results); empty fields carry no position; on an "
              "error verdict only completed elements are compared.")

PLAN["C01"] = dict(
    technique="differential PBT (rapid): resumed vs one-shot per step, generated messages x flags x capacities x chunk schedules; exhaustive cuts over a corpus and a small-scope enumeration",
    level_text=("Exploration: generated messages (grammar 55% / mutated 35% / raw 10%) under generated flags, capacities, start "
                "offsets and chunk schedules; at every step the resumed call must return the verdict and offset of a fresh one-shot "
                "parse of the same prefix, and at the definitive verdict the complete snapshot must be equal. Exhaustive over all "
                "single cuts + every-byte schedule for a 19-message corpus and over every string of a small delimiter alphabet "
                "behind a message skeleton (all 2^(n-1) schedules for short strings)."),
    level_note=_DIFF_NOTE,
    rule=("case = (message bytes, flags 0..3 + optional no-more-data on the last call, header/contact capacities, junk prefix, "
          "schedule); non-trivial = at least one suspension happened inside the first line or the headers and a definitive verdict "
          "was reached (scope/corpus cases: at least one schedule suspended and the full input is definitive); distinct = "
          "different canonical case JSON (hash) / enumerated strings are distinct by construction"),
    quick=[
        dict(kind="enum", test="TestC01Scope|TestC01Corpus|TestC01Large", solo=True, timeout=900),
        dict(test="TestC01Rapid", checks=15000, shards=8, counts=["C01.msg"]),
    ],
    thorough=[
        dict(kind="enum", test="TestC01Scope|TestC01Corpus|TestC01Large", solo=True, timeout=3000, env={"VERIF_DEPTH": 1}),
        dict(test="TestC01Rapid", checks=60000, shards=16, counts=["C01.msg"], timeout=5400),
    ],
)

PLAN["C02"] = dict(
    technique="differential PBT (rapid) over 19 parser wrappers + exhaustive small-scope enumeration (every string over each parser's delimiter alphabet x every chunk schedule)",
    level_text=("Exploration: each exported streaming parser (first line, header line with/without typed values, header block, "
                "name-addr for From/To/Contact/Route/PAI kinds, one/all Contact, one/all PAI, CSeq, Call-ID, uint/CLen/Expires, "
                "token param under generated option flags, URI param list, URI header list, quoted-string skipper) is driven "
                "with generated fragments (grammar/mutated/raw), start offsets, capacities and schedules and compared with a "
                "fresh one-shot call at every step. Exhaustive inside ~50 enumerated scopes (alphabet, bound listed in the "
                "evidence): all strings x all schedules (<= 6 bytes: all 2^(n-1); longer: every-byte, all single cuts, steps 2/3/5)."),
    level_note=_DIFF_NOTE,
    rule=("case = (parser kind + flags + capacities, junk prefix, fragment bytes, schedule); non-trivial = at least one "
          "suspension before a definitive verdict; distinct by case hash; enumerated strings distinct by construction"),
    quick=[
        dict(kind="enum", test="TestC02Scope", solo=True, timeout=900),
        dict(test="TestC02Rapid", checks=20000, shards=8, counts=["C02.sub"]),
    ],
    thorough=[
        dict(kind="enum", test="TestC02Scope", solo=True, timeout=3000, env={"VERIF_DEPTH": 1}),
        dict(test="TestC02Rapid", checks=100000, shards=16, counts=["C02.sub"], timeout=5400),
    ],
)

PLAN["C03"] = dict(
    technique="metamorphic PBT: one-shot verdict at every prefix vs every extension (natural continuation + hostile suffixes); exhaustive over small-scope strings",
    level_text=("Exploration: for a generated input the one-shot verdict of every prefix is computed; from the first definitive "
                "prefix on, every longer prefix and every (prefix within 4 bytes of the boundary) + (suffix from a hostile set: "
                "SP HT CR LF CRLF fold digit quote ; , letter random) must give the same verdict, offset and values. All 20 "
                "parser kinds incl. the message parser; end-of-input modes are not generated (exempt); a message without "
                "Content-Length in rest-of-buffer mode is compared without the body extent (exempt). Exhaustive for the "
                "natural-continuation clause inside the enumerated scopes."),
    level_note=_DIFF_NOTE,
    rule=("case = (parser kind + flags + capacities, junk prefix, input, suffix list); non-trivial = a definitive verdict is "
          "reached before the end of the input or a suffix starting with SP/HT/CR/LF/digit/quote was tested at the boundary; "
          "distinct by case hash; enumerated strings distinct by construction"),
    quick=[
        dict(kind="enum", test="TestC03Scope|TestC03Large", solo=True, timeout=900),
        dict(test="TestC03Rapid", checks=8000, shards=8, counts=["C03.prem"]),
    ],
    thorough=[
        dict(kind="enum", test="TestC03Scope|TestC03Large", solo=True, timeout=3000, env={"VERIF_DEPTH": 1}),
        dict(test="TestC03Rapid", checks=40000, shards=16, counts=["C03.prem"], timeout=5400),
    ],
)

PLAN["C04"] = dict(
    technique="robustness PBT/fuzzing: recover+offset+dereference oracle on arbitrary bytes for all exported functions; interleaved and concurrent (-race) runs vs solo runs; exhaustive lookups/IPv6/small scopes",
    level_text=("Exploration: every streaming parser on grammar/mutated/raw bytes at any start offset, flags (all 256 option sets "
                "sampled, 8 message flag sets), capacities incl. none and zero-value objects, any schedule: no panic, returned "
                "offset inside the buffer and not before the start unless an error, every exported field and accessor result "
                "dereferenceable after every call (success, error or suspension). All one-shot functions (URI parse/compare/"
                "relocate/views, IPv4/IPv6 prefix/contains, signatures, lookups, String methods) on hostile strings. Isolation: "
                "2..5 streams interleaved in a generated order and run concurrently under the race detector must equal their "
                "solo runs. Exhaustive: both lookups on all names <= 3 bytes, IPv6 text <= 9 symbols over ':1f].x' (+'['), "
                "offset/deref rules on every enumerated scope string. Non-termination is caught by a 30 s per-case watchdog."),
    level_note="Trusted: Go runtime bounds checks turn out-of-range access into panics; race detector for unsynchronised shared state; the 30 s watchdog bounds 'fails to return'.",
    rule=("case = (parser kind/config, bytes, start offset, schedule) or (two strings, flags, numbers) or (k streams + "
          "interleaving); non-trivial = the call consumed >= 8 bytes or returned a non-error verdict (isolation: >= 2 streams); "
          "distinct by case hash; enumerated strings distinct by construction"),
    quick=[
        dict(kind="enum", test="TestC04Scope|TestC04Enum|TestC04Large", solo=True, timeout=900),
        dict(test="TestC04StreamRapid", checks=8000, shards=4, counts=["C04.stream"]),
        dict(test="TestC04APIRapid", checks=8000, shards=3, counts=["C04.api"]),
        dict(test="TestC04IsoRapid", checks=1500, shards=3, counts=["C04.iso"], race=True),
        dict(test="TestC04IsoAPIRapid", checks=1500, shards=2, counts=["C04.isoapi"], race=True),
    ],
    thorough=[
        dict(kind="enum", test="TestC04Scope|TestC04Enum|TestC04Large", solo=True, timeout=3000, env={"VERIF_DEPTH": 1, "VERIF_C04_IP6LEN": 10}),
        dict(test="TestC04StreamRapid", checks=100000, shards=6, counts=["C04.stream"], timeout=5400),
        dict(test="TestC04APIRapid", checks=100000, shards=4, counts=["C04.api"], timeout=5400),
        dict(test="TestC04IsoRapid", checks=15000, shards=4, counts=["C04.iso"], race=True, timeout=5400),
        dict(test="TestC04IsoAPIRapid", checks=15000, shards=2, counts=["C04.isoapi"], race=True, timeout=5400),
    ],
)

PLAN["C11"] = dict(
    technique="metamorphic PBT: same text parsed at offset 0 and at offset k behind hostile junk (k = 1..8, up to 3000, and text ending exactly at 65,535); exhaustive over small-scope strings at k=1,2,3",
    level_text=("Exploration: every parser kind, generated inputs (grammar/mutated/raw), one-shot and chunked; verdicts must be "
                "equal, returned offsets and every reported field shifted by exactly k, every non-positional value equal. "
                "k is drawn from 1..8, 9..3000 and the largest legal value 65,535-len (the text ends at the addressing limit); "
                "junk before the text is hostile (CR, LF, quotes, digits, ':', ';', '<', '='). Exhaustive inside the enumerated scopes."),
    level_note=_DIFF_NOTE,
    rule=("case = (parser kind/config, input, k, junk pattern, schedule); non-trivial = k > 0 and a definitive verdict is "
          "reached; distinct by case hash; enumerated strings distinct by construction"),
    quick=[
        dict(kind="enum", test="TestC11Scope", solo=True, timeout=900),
        dict(test="TestC11Rapid", checks=15000, shards=8, counts=["C11.shift"]),
        dict(test="TestC11RelocRapid", checks=20000, shards=2, counts=["C11.reloc"]),
    ],
    thorough=[
        dict(kind="enum", test="TestC11Scope", solo=True, timeout=3000, env={"VERIF_DEPTH": 1}),
        dict(test="TestC11Rapid", checks=60000, shards=16, counts=["C11.shift"], timeout=5400),
        dict(test="TestC11RelocRapid", checks=200000, shards=2, counts=["C11.reloc"], timeout=5400),
    ],
)

PLAN["C12"] = dict(
    technique="stateful PBT: generated histories of (input, flags, complete/abandon-while-suspended/fail, array switch) + Reset/Init on one object with caller-supplied arrays, then a probe compared step by step with a new object; small-scope enumeration of (first use x abandon point x Reset/Init x probe)",
    level_text=("Exploration: for every parser object (message, header values, header list, contact/identity lists, name-addr, "
                "CSeq, Call-ID, integer, first line, header, token parameter, URI parameter/header lists, parsed URI) a history "
                "of 1..5 uses - complete parses, parses abandoned after 1-2 calls while suspended, failing parses, each with its "
                "own flags - each followed by Reset (or Init where it exists), then a probe input under a generated schedule: "
                "every probe step on the reused object must equal the same step on a new object with fresh arrays of the same "
                "capacities (verdict, offset, snapshot)."),
    level_note=_DIFF_NOTE,
    rule=("case = (object kind, capacities, list of operations, probe input + schedule); non-trivial = the history contains at "
          "least one abandoned or failed operation and the probe reaches a definitive verdict (URI: both URIs parse); distinct by case hash"),
    quick=[
        dict(kind="enum", test="TestC12Scope", solo=True, timeout=900),
        dict(test="TestC12Rapid", checks=30000, shards=10, counts=["C12.reset"]),
        dict(test="TestC12URIRapid", checks=20000, shards=2, counts=["C12.uri"]),
    ],
    thorough=[
        dict(kind="enum", test="TestC12Scope", solo=True, timeout=5400, env={"VERIF_DEPTH": 1}),
        dict(test="TestC12Rapid", checks=1000000, shards=14, counts=["C12.reset"], timeout=5400),
        dict(test="TestC12URIRapid", checks=2000000, shards=2, counts=["C12.uri"], timeout=5400),
    ],
)

PLAN["C13"] = dict(
    technique="differential PBT: parse with generated capacities (incl. 0 and none) vs ample capacity, per step; exhaustive capacity grid over a corpus",
    level_text=("Exploration: message parser, header block, header line with values, contact list, URI parameter and URI header "
                "lists; inputs that parse successfully with ample (96-element) arrays are re-parsed with generated capacities "
                "under the same schedule: verdict, offset, all counts, type flags, first-of-type headers, From/To/Call-ID/CSeq/"
                "Content-Length/Expires, identities, contact summary and MaxExpires() must be equal; stored elements must be a "
                "prefix of the ample result; More()/VNo()/PNo()/HNo() must be consistent with count vs capacity; GetContact(0) "
                "and GetContact(N-1) must equal the ample first/last; GetMsgSig equal or ErrHdrTrunc when headers did not fit. "
                "Exhaustive grid header capacity -1..20 x contact capacity -1..14 over the 19-message corpus."),
    level_note=_DIFF_NOTE,
    rule=("case = (parser kind, capacities, input, schedule); non-trivial = the input parses successfully and at least one "
          "capacity is smaller than the corresponding count (something was dropped); distinct by case hash; corpus grid cases distinct by construction"),
    quick=[
        dict(kind="enum", test="TestC13Corpus", solo=True, timeout=900),
        dict(test="TestC13Rapid", checks=30000, shards=10, counts=["C13.cap"]),
        dict(test="TestC13MultiRapid", checks=30000, shards=3, counts=["C13.multicall"]),
    ],
    thorough=[
        dict(kind="enum", test="TestC13Corpus", solo=True, timeout=900),
        dict(test="TestC13Rapid", checks=800000, shards=16, counts=["C13.cap"], timeout=5400),
        dict(test="TestC13MultiRapid", checks=500000, shards=4, counts=["C13.multicall"], timeout=5400),
    ],
)

_MODEL_NOTE = ("Model-by-construction oracle: inputs are rendered from a structured specification, so the expected parse is known "
               "without consulting the code; the generators only produce text inside the grammar the property quantifies over. "
               "Trusted: the hand-written renderer/model in harness/props.")

PLAN["C05"] = dict(
    technique="invariant-checking PBT: structural relations (containment, nesting, order, trimming, body/raw views) over every successfully parsed generated/corpus/mutated message, one-shot and chunked",
    level_text=("Exploration: grammar-generated messages with type-valid header values (repeated From/Contact/PAI headers, "
                "multi-value lists, folds, all line-end kinds), mutated messages that still parse and the corpus, at start "
                "offsets 0 and k, flags 0..3, one-shot and chunked. Oracle = invariants only: all fields inside the consumed "
                "region; first-line fields in order separated by single spaces; headers in order, each name/value inside its "
                "own line, 'WS* : LWS*' between them, values trimmed; V of From/To/Call-ID/CSeq/Content-Length/Expires equals "
                "the value of the first header of that type; Name/URI/Params inside V, Tag inside Params, CSeq parts inside "
                "CSeq.V; contact/identity values inside a header of their kind, ascending and disjoint; Body from the blank "
                "line to the returned offset; RawMsg == buf[start:o]; Buf == buf[:o]."),
    level_note="Invariant oracle: nothing is asserted about which inputs are accepted, only about relations between reported fields on accepted inputs.",
    rule=("case = (junk prefix, message bytes, flags, schedule); non-trivial = the message parses successfully with >= 3 "
          "headers and contains a fold, a repeated known header or a multi-value header; distinct by case hash"),
    quick=[
        dict(kind="enum", test="TestC05Corpus", timeout=600),
        dict(test="TestC05Rapid", checks=20000, shards=10, counts=["C05.contain"]),
    ],
    thorough=[
        dict(kind="enum", test="TestC05Corpus", timeout=600),
        dict(test="TestC05Rapid", checks=600000, shards=16, counts=["C05.contain"], timeout=5400),
    ],
)

PLAN["C06"] = dict(
    technique="model-based PBT: framing decision table (flags x Content-Length relation) on generated header blocks + exhaustive grid; pipelined messages compared with each message parsed alone",
    level_text=("Exploration: generated well-formed heads (first line + typed headers, no Content-Length) combined with a "
                "declared Content-Length (absent, equal, smaller, larger than available, > 2^24; long or compact name; any "
                "position), 0..60,000 available bytes and all 8 flag sets; the expected verdict/offset/body/RawMsg/Buf come "
                "from the decision table of the property statement. Exhaustive grid: 6 heads x 8 flag sets x available 0..40 "
                "x every Content-Length 0..avail+3. Pipelining: 1..5 self-delimiting messages back to back, parsed from each "
                "returned offset (skip-body: harness advances by Content-Length) on a Reset() or new object, under a chunk "
                "schedule, each compared with the same message parsed alone. End-of-input mode: a well-formed head cut at a "
                "generated position gives more-bytes-needed without the no-more-data flag and a definitive failure with Err() "
                "set with it (resumed and one-shot)."),
    level_note=_MODEL_NOTE,
    rule=("case = (head spec, Content-Length policy, available bytes, flags) or (k messages, mode, schedule); non-trivial = "
          "body parsing on with Content-Length != available bytes, or k >= 2; distinct by case hash / grid cases distinct by construction"),
    quick=[
        dict(kind="enum", test="TestC06Grid", timeout=600),
        dict(test="TestC06FrameRapid", checks=15000, shards=6, counts=["C06.frame"]),
        dict(test="TestC06PipeRapid", checks=10000, shards=6, counts=["C06.pipe"]),
    ],
    thorough=[
        dict(kind="enum", test="TestC06Grid", timeout=600),
        dict(test="TestC06FrameRapid", checks=600000, shards=8, counts=["C06.frame"], timeout=5400),
        dict(test="TestC06PipeRapid", checks=400000, shards=8, counts=["C06.pipe"], timeout=5400),
    ],
)

PLAN["C07"] = dict(
    technique="model-based PBT: header blocks rendered from a structured spec (names, whitespace, folds, line ends, repeated headers), expected N/flags/type/name/value/first-of-type known by construction; plus exhaustive enumeration of all small blocks (1-2 headers x every whitespace / fold / line-end placement x capacities x typed or generic values)",
    level_text=("Exploration: 1..60 generated header lines - known names in any case or compact form, one-edit neighbours, "
                "random tokens; SP/HT before the colon; LWS and folds (CRLF SP, CR SP, LF HT) after the colon, inside and after "
                "the value; CRLF / lone CR / lone LF line ends; empty values; repeated headers - parsed with hb == nil (generic "
                "values) and hb == &PHdrVals (type-valid values), header capacity none, 0..N+1. Expected: N, PFlags, and for "
                "every stored header type (reference table), name bytes+offset, value bytes+offset (first to last non-LWS "
                "byte), GetHdr(t) = first header of type t, missing otherwise; the exported flag accessors and constants "
                "(Test/Any/AllSet/Set/Clear/Reset, Hdr*F) agree with the set of types seen; SetHdr adds only a valid type not "
                "yet present."),
    level_note=_MODEL_NOTE,
    rule=("case = (list of header specs, blank line, tail, typed?, capacities); non-trivial = >= 2 headers and at least one "
          "of: fold, lone CR/LF line end, whitespace before the colon, empty value, compact or re-cased known name, capacity < N; "
          "distinct by case hash"),
    quick=[dict(test="TestC07Rapid", checks=12000, shards=12, counts=["C07.block"]),
           dict(kind="enum", test="TestC07Enum", solo=True, timeout=900)],
    thorough=[dict(test="TestC07Rapid", checks=1000000, shards=16, counts=["C07.block"], timeout=5400),
              dict(kind="enum", test="TestC07Enum", solo=True, timeout=5400, env={"VERIF_DEPTH": 1})],
)

PLAN["C08"] = dict(
    technique="model-based PBT + enumeration: request/status lines rendered from a spec (all 1000 status codes x terminators x reasons x version casings; all table methods and their case flips), plus stated near-miss mutations that must be rejected",
    level_text=("Exploration with exhaustive parts: every status code 000-999 x 3 line terminators x 4 reasons x 4 version "
                "casings, every table method (exact, lower-case, every single case flip, one char more/less) x terminators, "
                "through ParseFLine and ParseSIPMsg; generated request lines (table / re-cased / random token methods, random "
                "URI and version tokens) and status lines (any reason without CR/LF); 15 kinds of near-miss (double space, tab, "
                "missing/extra token, leading/trailing space, 2/4-digit or non-digit code, missing space after the code) must "
                "give an error verdict. Expected tokens, offsets, Status, MethodNo (reference table), Request(), Method(). A third "
                "of the generated lines is fed in two or three calls (a first prefix of 1..40 bytes, optionally a second one "
                "that is random or ends 2/1/0 bytes before the end of the line): the decomposition must not depend on it."),
    level_note=_MODEL_NOTE,
    rule=("case = (first-line spec, near-miss kind, following bytes, entry point); every case is non-trivial (none is a literal "
          "row of parse_fline_test); distinct by case hash / enumerated lines distinct by construction"),
    quick=[
        dict(kind="enum", test="TestC08Enum", timeout=600),
        dict(test="TestC08Rapid", checks=30000, shards=8, counts=["C08.fline"]),
    ],
    thorough=[
        dict(kind="enum", test="TestC08Enum", timeout=600),
        dict(test="TestC08Rapid", checks=3000000, shards=14, counts=["C08.fline"], timeout=5400),
    ],
)

PLAN["C09"] = dict(
    technique="model-based PBT: name-addr values and lists rendered from a structured spec (display name, angle/bare URI, parameters with LWS/folds, quoted strings with commas/escapes), expected decomposition known by construction; through ParseNameAddrPVal, ParseAll*Values and ParseHeaders; plus exhaustive enumeration of all small specs (display forms x URI forms x 0..2 parameters with every blank placement x header kinds x entry points)",
    level_text=("Exploration: From/To/Contact/P-Asserted-Identity/Route/Record-Route values: none/token/quoted display names "
                "(escapes, commas, '<' inside quotes), URI in angle brackets (may hold ';' '?' ',') or bare, 0..4 parameters in any "
                "case with token/quoted/empty/missing values and LWS/folds around ';' '=' ',', Contact '*'; lists of 1..4 values in "
                "1..3 headers; capacities none/0/1/2/3/10; optional Expires header. Expected per value: URI and tag exact (bytes "
                "and offset), display name / parameter span / whole value up to trailing whitespace (documented allowance), "
                "expires (saturating), q x 1000, lr, star, kind; per list: split points, N, HNo, Min/MaxExpires over all values "
                "incl. those beyond capacity, MaxExpires() with the Expires header, GetContact(0)/(N-1), LastHVal and Hdr.Val of "
                "each header."),
    level_note=_MODEL_NOTE,
    rule=("case = (header kind, headers x values specs, entry point, surrounding LWS, capacity, Expires header); non-trivial = "
          "a value has a display name or parameters and contains LWS or a quoted string, or the case has >= 2 values; distinct by case hash"),
    quick=[dict(test="TestC09Rapid", checks=25000, shards=12, counts=["C09.nameaddr"]),
           dict(kind="enum", test="TestC09Enum", timeout=600)],
    thorough=[dict(test="TestC09Rapid", checks=2000000, shards=16, counts=["C09.nameaddr"], timeout=5400),
              dict(kind="enum", test="TestC09Enum", solo=True, timeout=3000, env={"VERIF_DEPTH": 1})],
)

PLAN["C10"] = dict(
    technique="model-based PBT + enumeration with a big-integer oracle: digit strings (boundary neighbourhoods of 2^16..2^64, multiples, leading zeros, 1..40 digits) in every numeric position, one-shot and cut inside the number",
    level_text=("Exploration with exhaustive parts: every digit string of length 1..5 as URI port (two syntactic paths), "
                "Content-Length and CSeq; every listed boundary (2^16, 2^24, 2^31, 2^32, 10^9, 10^10, 2^63, 2^64, 2^65, 10x2^64, "
                "2^128 ...) +-20 in all 11 positions (CSeq, Content-Length stand-alone/in a message, Expires stand-alone/in a "
                "message, Contact expires, URI port via host:port, user@host:port, with params, with headers, IPv6 host) with "
                "every cut position; q: integer parts 0..20 / 2^64+{0,1} x every fraction of 0..4 digits. Oracle: math/big value "
                "of the digit string: accepted => reported number equals it; beyond the documented range => rejected (q: unset and "
                "flagged; Contact expires: saturates at 2^32-1). Status codes are enumerated under C08."),
    level_note=_MODEL_NOTE + " Rejecting an over-long zero-padded in-range number is accepted either way (not claimed).",
    rule=("case = (position, digit string, fraction, cut); non-trivial = value >= 2^16 or >= 5 digits or leading zeros (q: "
          "always); distinct by case hash / enumerated strings distinct by construction"),
    quick=[
        dict(kind="enum", test="TestC10Enum", timeout=600),
        dict(test="TestC10Rapid", checks=40000, shards=8, counts=["C10.num"]),
    ],
    thorough=[
        dict(kind="enum", test="TestC10Enum", timeout=1200, env={"VERIF_C10_DIGITS": 7}),
        dict(test="TestC10Rapid", checks=3000000, shards=14, counts=["C10.num"], timeout=5400),
    ],
)

PLAN["C17"] = dict(
    technique="model-based PBT: parameter lists rendered from a spec (separators, terminators, quoted values, empty items, LWS/folds), expected items/verdict/offset by construction; exhaustive enumeration of all small specs (<= 2 items with every whitespace placement, 3 without) x flag sets x terminators x entry points; illegal-byte injection; list wrappers with capacities; metamorphic + absolute Via-branch signature",
    level_text=("Exploration: ParseTokenParam (called repeatedly with a fresh parameter after more-values), ParseAllURIParams "
                "and ParseAllURIHdrs on generated lists of 0..5 items (token/quoted/empty/missing values, LWS and folds around "
                "names, '=' and separators, empty items incl. trailing ones) under generated option flags (all 256 sets sampled; "
                "';' and '&' separators; ',' '?' whitespace-then-token, end-of-header and end-of-input terminators): every "
                "parameter once, in order, exact name/value bytes and offsets, more-values offset = next name, final verdict and "
                "offset naming the terminator; wrappers: N, returned count, Types, per-item type, stored prefix. One byte outside "
                "the documented character set injected at a generated name/value position must be rejected at that position. "
                "The whitespace of the whitespace-then-token terminator is drawn from SP/HT/several/folds (offset = last blank "
                "before the token); the mode's terminator byte where a name must start is rejected; list predicates "
                "(Empty/More/PNo/HNo). GetViaBrSig(via with generated parameter list) == GetViaBrSig(canonical 'x;branch=value'), "
                "its length is that of the branch without the z9hG4bK cookie, its SigHas*F flags are the special characters of "
                "that text, (0,0) without a branch / without any parameter / behind a malformed parameter."),
    level_note=_MODEL_NOTE,
    rule=("case = (list spec with flags and terminator, junk prefix, injected byte + position, entry point, capacity); "
          "non-trivial = >= 2 items or a quoted value or LWS around a delimiter (injected cases always); distinct by case hash"),
    quick=[
        dict(test="TestC17Rapid", checks=30000, shards=10, counts=["C17.list"]),
        dict(test="TestC17ViaRapid", checks=30000, shards=4, counts=["C17.viabr"]),
        dict(kind="enum", test="TestC17Enum", timeout=600),
    ],
    thorough=[
        dict(test="TestC17Rapid", checks=3000000, shards=12, counts=["C17.list"], timeout=5400),
        dict(test="TestC17ViaRapid", checks=3000000, shards=4, counts=["C17.viabr"], timeout=5400),
        dict(kind="enum", test="TestC17Enum", solo=True, timeout=3000, env={"VERIF_DEPTH": 1}),
    ],
)

PLAN["C14"] = dict(
    technique="exhaustive enumeration (every string over the URI delimiter alphabet behind sip:/sips:/tel:, all scheme casings) + rapid generation/mutation, with a structural losslessness oracle and a reference split",
    level_text=("Exploration with exhaustive parts: every string of <= 7 symbols (quick; <= 8 thorough) over ':@;?&=[].a1' behind "
                "each scheme, all letter casings of the schemes, generated structured URIs, mutated URIs and random delimiter "
                "soups. On accept: consumed == length; components disjoint and in the order scheme,user,password,host,port,"
                "params,headers; every gap (and the tail) consists exactly of the delimiters that belong there, hence the "
                "concatenation reproduces the input; differential against an independent reference split for inputs with at "
                "most one '@' whose first byte after the scheme is ordinary and whose user part has no brackets; PortNo equals "
                "the decimal port. tel: => empty host, number as user (tel: with '@' only has to return). On reject: error "
                "position inside the input. sip:/sips: URIs built component by component (user possibly with ; ? & = /) must be "
                "accepted; every accepted URI is also parsed into a structure used before and Reset()."),
    level_note="Structural oracle needs no per-input expectation; the reference split is hand-written and applied only inside the stated domain restrictions (DESIGN.md section 4 C14).",
    rule=("case = URI text; non-trivial = accepted with >= 3 non-empty components or a ';' '?' ':' before the '@'; enumerated "
          "strings distinct by construction, generated ones by hash"),
    quick=[
        dict(kind="enum", test="TestC14Enum", solo=True, timeout=900, env={"VERIF_C14_LEN": 7}),
        dict(test="TestC14Rapid", checks=50000, shards=8, counts=["C14.uri"]),
    ],
    thorough=[
        dict(kind="enum", test="TestC14Enum", solo=True, timeout=3000, env={"VERIF_C14_LEN": 8}),
        dict(test="TestC14Rapid", checks=600000, shards=12, counts=["C14.uri"], timeout=5400),
    ],
)

PLAN["C15"] = dict(
    technique="algebraic-law PBT: reflexivity, symmetry, flag monotonicity over all 64 skip-flag sets, equivalence of permuted/re-cased variants, single-component changes, agreement of the three entry points and the handed-back parsed URIs",
    level_text=("Exploration: structured URIs with well-formed, duplicate-free parameter and header lists; pairs = (u, equivalent "
                "variant: parameters/headers permuted, scheme/host/parameter names and values/header names re-cased), (u, u with "
                "exactly one component changed: user, user case, password, password case, host, port, scheme, a common parameter "
                "value, header value/name/added header, a one-sided user/ttl/method/maddr parameter), unrelated pairs; for every "
                "pair all 64 flag sets in both argument orders: reflexive, symmetric, monotone in the flags; variants equal; a "
                "changed component => different unless its skip flag is set and equal when it is; URIRawCmp == URIParseCmp == "
                "URICmp o ParseURI and r1/r2 == ParseURI of each argument."),
    level_note=_MODEL_NOTE + " Nothing is asserted about a parameter other than user/ttl/method/maddr present on one side only.",
    rule=("case = (URI spec a, URI spec b, relation); non-trivial = both parse and carry >= 1 parameter or header; distinct by case hash"),
    quick=[dict(test="TestC15Rapid", checks=10000, shards=12, counts=["C15.cmp"])],
    thorough=[dict(test="TestC15Rapid", checks=300000, shards=16, counts=["C15.cmp"], timeout=5400)],
)

PLAN["C18"] = dict(
    technique="model-based PBT + small-scope enumeration: relocation of every accepted URI to generated offsets (incl. the 65,535 limit) with every span length, views checked against their definitions",
    level_text=("Exploration with exhaustive parts: every accepted URI of the C14 small scope (<= 5 symbols quick, <= 6 thorough) x "
                "every span 0..len+1 x target offsets 0/1/7; generated and mutated structured URIs x offsets 0, 1..16, up to "
                "60,000 and 65,535-len x spans below, at and above the URI length. span >= len => AdjustOffs returns true and "
                "every component denotes the same bytes in a buffer holding the URI at the target; span < len => false, no "
                "panic, structure unchanged; Long() = scheme .. last non-empty component, Flat() its text, Short() ends at "
                "port/host (user for tel:) and is a prefix of Long(), Truncate() empties exactly Params and Headers."),
    level_note=_MODEL_NOTE + " tel: URIs containing '@' are outside the stated form and skipped.",
    rule=("case = (URI text, target offset, span length); non-trivial = the URI is accepted with >= 3 non-empty components and "
          "the target offset is > 0; rejected URIs are skipped (counted as skipped); distinct by hash / by construction"),
    quick=[
        dict(kind="enum", test="TestC18Enum", solo=True, timeout=900),
        dict(test="TestC18Rapid", checks=40000, shards=8, counts=["C18.reloc"]),
    ],
    thorough=[
        dict(kind="enum", test="TestC18Enum", solo=True, timeout=3000, env={"VERIF_C18_LEN": 6}),
        dict(test="TestC18Rapid", checks=400000, shards=12, counts=["C18.reloc"], timeout=5400),
    ],
)

PLAN["C19"] = dict(
    technique="metamorphic PBT: a generated request and variants that differ only in non-fingerprinted parts (fillers, repeated fingerprinted headers, URIs/display names/CSeq number/Via host, chunking, capacity) must have identical signatures; header-order sequence against a reference; replies; truncation",
    level_text=("Exploration: requests built from a permutation of a 2..8 subset of the eight fingerprinted headers in long or "
                "compact form with fillers (unknown and known-but-not-fingerprinted headers) in between; 1..4 variants each: fresh "
                "fillers, fingerprinted headers repeated later with other values/forms, all non-fingerprinted parts re-drawn "
                "while Call-ID, From-tag and first-Via branch are kept; parsed under a chunk schedule with all headers fitting. "
                "Oracle: MsgSig of every variant == MsgSig of the base; HdrSig == reference sequence (first occurrences in order, "
                "Contact only for INVITE, compact bit from a one-letter name), HdrSigLen <= 8, method = table lookup; String() "
                "matches the documented shape and is the method digit followed by exactly the header ids; replies => ErrHdrEmpty; "
                "header capacity < N => the same signature or ErrHdrTrunc. Absolute part: the documented SigHas*F flags of "
                "FromSig / ViaBSig / CidSig equal the special characters present in the From tag / the first-Via branch without "
                "the z9hG4bK cookie / the Call-ID outside an embedded IPv4 address; the IP-position flag follows the address "
                "span; CidSLen = ceil(len/4) saturating at 0xff (Call-IDs of ~1020 bytes generated); fillers may look like Via "
                "values with ;branch= and ;tag=; one case in six has a first Via without a branch (none, value-less, empty), "
                "whose branch part later Vias on their own or on the same line must not supply."),
    level_note=_MODEL_NOTE,
    rule=("case = (method, base header list, variant header lists, schedule, capacity); non-trivial = >= 3 fingerprinted "
          "headers and >= 1 variant; distinct by case hash"),
    quick=[dict(test="TestC19Rapid", checks=6000, shards=12, counts=["C19.sig"])],
    thorough=[dict(test="TestC19Rapid", checks=500000, shards=16, counts=["C19.sig"], timeout=5400)],
)

PLAN["C20"] = dict(
    technique="exhaustive enumeration against an independent reference matcher (all strings over {0,1,2,5,6,'.',x} and over all digits + '.'), plus rapid strings with embedded valid/near-valid addresses",
    level_text=("Exploration with exhaustive parts: every string of <= 9 symbols (quick; <= 11 thorough) over {0,1,2,5,6,.,x}, every "
                "string of <= 6 (7) symbols over the ten digits and '.', every string of <= 5 (6) symbols over digits/'.'/x behind "
                "'1.2.'; generated strings of several hundred bytes with embedded valid and near-valid addresses. ContainsIP4 "
                "true <=> some substring is four dot-separated groups of 1-3 digits <= 255 (backtracking reference matcher); "
                "the reported span is such an address and its groups equal the returned bytes; IP4Prefix result, stop offset, "
                "verdict (end / digit / other / truncated / bad) and bytes equal a greedy reference scanner; GetCallIDSig sets "
                "exactly the IP-position flag implied by the reported span and none when there is no address and no ':'."),
    level_note="Reference matcher and scanner are hand-written, independent of ip_prefix.go (recursive group splitter / greedy group reader).",
    rule=("case = text; non-trivial = the text has >= 3 dots and a near-miss group (3-digit value 250..299 or a 4-digit run); "
          "enumerated strings distinct by construction, generated by hash"),
    quick=[
        dict(kind="enum", test="TestC20Enum", solo=True, timeout=900, env={"VERIF_C20_LEN": 9, "VERIF_C20_DIGLEN": 6}),
        dict(test="TestC20Rapid", checks=50000, shards=8, counts=["C20.ip4"]),
    ],
    thorough=[
        dict(kind="enum", test="TestC20Enum", solo=True, timeout=3000, env={"VERIF_C20_LEN": 11, "VERIF_C20_DIGLEN": 7}),
        dict(test="TestC20Rapid", checks=600000, shards=12, counts=["C20.ip4"], timeout=5400),
    ],
)


# native coverage-guided fuzzing: thorough tier only (cannot be seeded; the saved input is the reproducible unit)
for _p, _t in (("C01", "FuzzC01"), ("C02", "FuzzC02"), ("C03", "FuzzC03"), ("C04", "FuzzC04"), ("C14", "FuzzC14"),
               ("C18", "FuzzC14"), ("C20", "FuzzC20"), ("C05", "FuzzC05"), ("C11", "FuzzC11"), ("C12", "FuzzC12"),
               ("C13", "FuzzC13")):
    PLAN[_p]["thorough"].append(dict(kind="fuzz", test=_t, fuzztime="120s", solo=True, timeout=600))
