"""Per-property stage plans for ./check.

A stage is a dict:
  kind   : "rapid" (default) | "enum" | "corpus" | "fuzz"
  test   : Go test function name (regex alternatives allowed: A|B)
  checks : rapid cases per shard        shards : number of shard processes
  counts : check names whose (evaluations+skipped) must reach checks*shards
  env    : extra environment            timeout: seconds
  race   : run with the -race binary    solo   : run alone (uses all cores itself)
"""

ORDER = ["C%02d" % i for i in range(1, 21)]


def prop_index(p):
    return ORDER.index(p) + 1


COMMON_ASSUMPTIONS = [
    "the Go harness is built from /repo's working tree through a module replace; the Go compiler, runtime and rapid v1.3.0 are trusted",
    "sampling evidence: absence of a violation in the generated cases does not establish absence in general",
]

PLAN = {}
NOT_CLAIMED = {}

PLAN["C16"] = dict(
    technique="exhaustive enumeration (casings, one-edit neighbours, all strings <= 3 bytes) + rapid generation against a reference table",
    level_text=("Exploration with exhaustive parts: every case variant and every one-edit neighbour of every table name and "
                "every byte string of length 0..3 is looked up and compared with an independent reference table, so the "
                "'if and only if' is decided completely inside those sub-spaces; longer non-members are sampled."),
    rule=("names are enumerated (all 2^len casings of every table name, all one-edit neighbours over the 256-byte "
          "alphabet, all byte strings of length 0..3) and generated (re-cased / 1-3 edits / same hash bucket / raw "
          "bytes / random tokens), compared with a reference table transcribed from the property statement; "
          "non-trivial = the empty name, a table member in non-canonical case, or a non-member sharing the "
          "first-byte hash bits and length mod 4 with a member; distinct = different name (enumerations are "
          "duplicate-free per part, generated cases de-duplicated by hash)"),
    assumptions=["reference tables are transcribed by hand from the statement of C16 and RFC 3261 method names"],
    quick=[
        dict(kind="enum", test="TestC16Enum", solo=True, timeout=600),
        dict(test="TestC16HdrRapid", checks=20000, shards=2, counts=["C16.hdr"]),
        dict(test="TestC16MthRapid", checks=20000, shards=2, counts=["C16.mth"]),
        dict(test="TestC16ParseRapid", checks=20000, shards=2, counts=["C16.parse"]),
    ],
    thorough=[
        dict(kind="enum", test="TestC16Enum", solo=True, timeout=1200),
        dict(test="TestC16HdrRapid", checks=300000, shards=5, counts=["C16.hdr"]),
        dict(test="TestC16MthRapid", checks=300000, shards=5, counts=["C16.mth"]),
        dict(test="TestC16ParseRapid", checks=300000, shards=5, counts=["C16.parse"]),
    ],
)
