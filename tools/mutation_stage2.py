#!/usr/bin/env python3
"""Stage 2 of the mechanical mutation sweep: every mutant that survived the repository suite and the
smoke tier is rebuilt in a scratch copy and the REAL quick checks of the properties anchored in the
mutated file are run against it (VERIF_REPO). Output: one JSON line per mutant with caught_by / survived.

usage: tools/mutation_stage2.py /tmp/mutsweep/result.jsonl [/tmp/mutsweep/stage2.jsonl]
"""
import json
import os
import shutil
import subprocess
import sys
import tempfile

REPO, VERIF = "/repo", "/verif"
FILE_PROPS = {
    "ip_prefix.go": ["C20", "C04"],
    "hex2i.go": ["C04", "C20"],
    "sipuri.go": ["C14", "C18", "C15", "C10"],
    "parse_from.go": ["C09", "C02", "C05", "C10"],
    "parse_headers.go": ["C07", "C01", "C02", "C12", "C13", "C16"],
    "parse_params.go": ["C17", "C02", "C03"],
    "parse_uri_params.go": ["C17", "C13", "C15", "C12"],
    "parse_uri_hdrs.go": ["C17", "C13", "C15", "C12"],
    "parse_fline.go": ["C08", "C02", "C03"],
    "parse_utils.go": ["C02", "C03", "C07"],
    "parse_msg.go": ["C06", "C01", "C12", "C11"],
    "parse_contact.go": ["C09", "C13", "C12", "C02"],
    "parse_pai.go": ["C09", "C02", "C12"],
    "parse_cseq.go": ["C10", "C02", "C05"],
    "parse_clen.go": ["C10", "C02", "C06"],
    "parse_callid.go": ["C02", "C05"],
    "parse_method.go": ["C16", "C08"],
    "parse_types.go": ["C04", "C01"],
    "msg_sig.go": ["C19", "C20", "C17", "C04"],
    "parse_expires.go": ["C10"],
}


def main():
    src = sys.argv[1]
    out = sys.argv[2] if len(sys.argv) > 2 else "/tmp/mutsweep/stage2.jsonl"
    done = set()
    if os.path.exists(out):
        for l in open(out):
            d = json.loads(l)
            done.add((d["file"], d["line"], d["op"], d["mutated"]))
    muts = [json.loads(l) for l in open(src)]
    muts = [m for m in muts if m["status"] == "SURVIVED"]
    print(len(muts), "survivors of the smoke tier")
    env = dict(os.environ, GOFLAGS="-mod=mod", GOPROXY="off", GOSUMDB="off", GOTOOLCHAIN="local")
    for k, m in enumerate(muts):
        key = (m["file"], m["line"], m["op"], m["mutated"])
        if key in done:
            continue
        wd = tempfile.mkdtemp(prefix="st2-", dir="/tmp/mutsweep")
        try:
            for fn in os.listdir(REPO):
                if fn.endswith(".go") or fn in ("go.mod", "go.sum"):
                    shutil.copy(os.path.join(REPO, fn), wd)
            p = os.path.join(wd, m["file"])
            lines = open(p).read().split("\n")
            ln = m["line"] - 1
            # re-apply: find the mutated text by replacing the original stripped line
            orig_full = lines[ln]
            if orig_full.strip()[:120] != m["orig"]:
                m["stage2"] = "source-changed"
            else:
                indent = orig_full[:len(orig_full) - len(orig_full.lstrip())]
                if len(orig_full.strip()) > 120:
                    m["stage2"] = "line-too-long"
                else:
                    lines[ln] = indent + m["mutated"] if m["mutated"] else ""
                    open(p, "w").write("\n".join(lines))
                    caught = []
                    for prop in FILE_PROPS.get(m["file"], ["C04"]):
                        e = dict(env, VERIF_REPO=wd)
                        r = subprocess.run(["./check", prop, "--tier", "quick"], cwd=VERIF, env=e, stdout=subprocess.PIPE,
                                           stderr=subprocess.STDOUT, text=True)
                        if r.returncode == 1 and ("VIOLATION property=%s" % prop) in r.stdout:
                            caught.append(prop)
                            break
                        if r.returncode == 2:
                            m.setdefault("infra", []).append(prop)
                    m["stage2"] = "caught" if caught else "SURVIVED"
                    m["caught_by"] = caught
        finally:
            shutil.rmtree(wd, ignore_errors=True)
        with open(out, "a") as f:
            f.write(json.dumps(m) + "\n")
        print(k, m["stage2"], m.get("caught_by"), m["file"], m["line"], m["op"], "|", m["mutated"], flush=True)


if __name__ == "__main__":
    main()
