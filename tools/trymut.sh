#!/bin/bash
# tools/trymut.sh <file.go> <sed-expression> <prop> [prop...]
# one-off sensitivity probe: scratch copy of /repo (outside /repo and /verif), sed-edit one file,
# confirm it builds and passes the repository suite, run the quick checks of the given properties
# against it (VERIF_REPO), remove the copy. Nothing in /repo is touched.
set -u
export GOFLAGS=-mod=mod GOPROXY=off GOSUMDB=off GOTOOLCHAIN=local
F=$1; EXPR=$2; shift 2
D=$(mktemp -d /tmp/trymut.XXXXXX)
trap 'rm -rf "$D"' EXIT
cp /repo/*.go /repo/go.mod /repo/go.sum "$D"/
sed -i -e "$EXPR" "$D/$F"
if diff -q "$D/$F" "/repo/$F" >/dev/null; then echo "NO-CHANGE"; exit 3; fi
diff "/repo/$F" "$D/$F" | head -6
(cd "$D" && go build ./... ) || { echo "NO-COMPILE"; exit 3; }
(cd "$D" && go test -vet=off -count=1 ./... >/dev/null 2>&1) || { echo "KILLED-BY-REPO-SUITE"; exit 0; }
for P in "$@"; do
  OUT=$(cd /verif && VERIF_REPO="$D" ./check "$P" --tier quick 2>&1); RC=$?
  echo "$P rc=$RC $(echo "$OUT" | grep -m1 '^VIOLATION' | cut -c1-60) $(echo "$OUT" | grep -m1 'check=' | cut -c1-220)"
done
