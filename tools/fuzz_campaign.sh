#!/bin/bash
# tools/fuzz_campaign.sh <seconds-per-target> [targets...]
# Long native coverage-guided campaign outside the registered tiers (the thorough tier runs 120 s per target):
# builds the instrumented harness against /repo's working tree, runs each Fuzz target for the given time with a
# scratch corpus cache, and reports violations found (their decoded cases go to a scratch directory; a confirmed one
# is then moved to replays/<ID>/ by hand). Native fuzzing cannot be seeded - the saved input is the reproducible unit.
set -u
export GOFLAGS=-mod=mod GOPROXY=off GOSUMDB=off GOTOOLCHAIN=local
T=${1:-600}; shift
TARGETS=${*:-FuzzC01 FuzzC02 FuzzC03 FuzzC04 FuzzC14 FuzzC20}
cd /verif/harness
S=$(mktemp -d /tmp/fuzzcamp.XXXXXX)
go test -c -fuzz=FuzzC01 -o "$S/props.fuzz.test" ./props || exit 2
cd props
for F in $TARGETS; do
  mkdir -p "$S/$F/cache" "$S/$F/replays"
  VERIF_STATS="$S/$F/st.json" VERIF_REPLAY_DIR="$S/$F/replays" VERIF_KNOWN=/verif/known_findings.json VERIF_TIER=thorough \
    "$S/props.fuzz.test" -test.run '^$' -test.fuzz "^$F\$" -test.fuzztime "${T}s" -test.fuzzcachedir "$S/$F/cache" -test.timeout "$((T+300))s" > "$S/$F/log" 2>&1
  RC=$?
  EX=$(grep -o 'execs: [0-9]*' "$S/$F/log" | tail -1)
  NI=$(grep -o 'new interesting: [0-9]* (total: [0-9]*)' "$S/$F/log" | tail -1)
  echo "$F rc=$RC $EX $NI violations=$(grep -c 'VIOLATION-FOUND' "$S/$F/log") replays=$(ls "$S/$F/replays" 2>/dev/null | wc -l) dir=$S/$F"
done
rm -f "$S/props.fuzz.test"
rm -rf /verif/harness/props/testdata/fuzz 2>/dev/null
