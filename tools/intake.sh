#!/bin/bash
# tools/intake.sh <outdir> <prop> <first-index>
# takes the mutants a sub-agent left in <outdir>/<prop>/m1..m3, confirms each one in a scratch worktree
# (tools/seedcheck.sh: applies, builds, suite passes 3x, demo fails with / passes without) and, if confirmed,
# keeps it as seeded/<prop>-m<first-index + k - 1>; prints the seedcheck JSON line (which quick checks caught it).
OUT=$1; P=$2; FIRST=$3
cd /verif
for k in 1 2 3; do
  D=$OUT/$P/m$k
  [ -f "$D/patch.diff" ] || { echo "$P m$k: no patch"; continue; }
  # demo function must be named TestDemo*
  R=$(tools/seedcheck.sh "$D" 2>&1 | tail -1)
  echo "$P m$k -> $R"
  if echo "$R" | grep -q '"confirmed": true'; then
    T=seeded/$P-m$((FIRST + k - 1))
    mkdir -p $T && cp "$D/patch.diff" "$D/demo_test.go" "$D/meta.json" $T/
  fi
done
