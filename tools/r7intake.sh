#!/bin/bash
# tools/r7intake.sh <prop> : round-7 intake of /tmp/r7out/<prop>/m1,m2 (adds round/origin to meta.json, removes the
# sub-agent's worktree, then tools/intake.sh from index 13)
P=$1
git -C /repo worktree remove --force /tmp/r7wt-$P 2>/dev/null
python3 - "$P" <<'PY'
import json,sys,os
P=sys.argv[1]
for k in (1,2):
    p=f'/tmp/r7out/{P}/m{k}/meta.json'
    if not os.path.exists(p):
        if os.path.exists(f'/tmp/r7out/{P}/m{k}/patch.diff'):
            m={"property":P,"summary":"(sub-agent left no meta.json)","needs":"see demo_test.go","files":[]}
        else: continue
    else: m=json.load(open(p))
    m['property']=P
    m['round']=7; m['origin']="written by an independent sub-agent (seventh round: two cooperating sites, multi-step sequences, interaction of two rare syntax features, secondary values) given only the property text and a scratch worktree of /repo; nothing from /verif"
    json.dump(m,open(p,'w'),indent=1)
PY
cd /verif && tools/intake.sh /tmp/r7out $P 13
