#!/bin/bash
# Applies every seeded change to /repo itself, runs the quick check of its property, undoes it.
# Usage: tools/seeded_run.sh [id ...]      (default: all of seeded/*)
cd /verif
ids=${*:-$(ls seeded)}
ok=0; bad=0
if [ -n "$(git -C /repo status --porcelain)" ]; then echo "/repo is not clean"; exit 2; fi
for id in $ids; do
  prop=$(python3 -c "import json;m=json.load(open('seeded/$id/meta.json'));print(m.get('caught_by_quick_check_of') or m['property'])")
  git -C /repo apply /verif/seeded/$id/patch.diff || { echo "$id: patch does not apply"; bad=$((bad+1)); continue; }
  out=$(VERIF_NO_EVIDENCE=1 ./check $prop --tier quick 2>&1); rc=$?
  git -C /repo checkout -- .
  # violations found against a seeded change must not stay in replays/
  git -C /verif clean -fdq replays evidence >/dev/null 2>&1; git -C /verif checkout -- evidence replays 2>/dev/null
  if [ $rc -eq 1 ] && echo "$out" | grep -q "^VIOLATION property=$prop"; then echo "$id: caught by $prop"; ok=$((ok+1)); else echo "$id: NOT caught (rc=$rc)"; bad=$((bad+1)); fi
done
echo "caught=$ok missed=$bad"
[ $bad -eq 0 ]
