#!/bin/bash
# tools/seedcheck.sh <mutant-dir> [props...]
# 1. confirms the mutant in a scratch worktree of /repo: it applies, builds, passes the repository suite,
#    its demonstration test fails with it and passes without it;
# 2. runs the quick checks of the given properties (default: the one in meta.json) against the scratch
#    copy (VERIF_REPO) and reports which of them raise a VIOLATION.
# The scratch worktree is removed at the end. Exit 0 if the mutant is confirmed; output is a JSON line.
set -u
export GOFLAGS=-mod=mod GOPROXY=off GOSUMDB=off GOTOOLCHAIN=local
D=$(cd "$1" && pwd); shift
PROP=$(python3 -c "import json,sys;print(json.load(open('$D/meta.json'))['property'])")
PROPS=${*:-$PROP}
WT=$(mktemp -d /tmp/seedwt.XXXXXX)
git -C /repo worktree add -q --detach "$WT" HEAD || exit 3
cleanup() { git -C /repo worktree remove --force "$WT" 2>/dev/null; rm -rf "$WT" "$WT".log.*; }
trap cleanup EXIT
TESTNAME=$(grep -o 'func TestDemo[A-Za-z0-9_]*' "$D/demo_test.go" | head -1 | sed 's/func //')
res() { echo "{\"dir\": \"$D\", \"property\": \"$PROP\", $1}"; }
if ! git -C "$WT" apply "$D/patch.diff" 2>$WT.log.err && ! git -C "$WT" apply --3way "$D/patch.diff" 2>>$WT.log.err; then res "\"confirmed\": false, \"why\": \"patch does not apply\""; exit 1; fi
if ! (cd "$WT" && go build ./... >/dev/null 2>&1); then res "\"confirmed\": false, \"why\": \"does not build\""; exit 1; fi
for i in 1 2 3; do
  if ! (cd "$WT" && go test -vet=off -count=1 ./... >$WT.log.suite 2>&1); then res "\"confirmed\": false, \"why\": \"repository suite fails with the mutant\""; exit 1; fi
done
cp "$D/demo_test.go" "$WT/zz_demo_test.go"
if (cd "$WT" && go test -vet=off -count=1 -run "^$TESTNAME\$" . >$WT.log.demo1 2>&1); then res "\"confirmed\": false, \"why\": \"demo passes with the mutant\""; exit 1; fi
if grep -q "build failed\|cannot find\|undefined:" $WT.log.demo1; then res "\"confirmed\": false, \"why\": \"demo does not compile\""; exit 1; fi
rm "$WT/zz_demo_test.go"
git -C "$WT" checkout -- . ; cp "$D/demo_test.go" "$WT/zz_demo_test.go"
if ! (cd "$WT" && go test -vet=off -count=1 -run "^$TESTNAME\$" . >$WT.log.demo2 2>&1); then res "\"confirmed\": false, \"why\": \"demo fails without the mutant\""; exit 1; fi
rm "$WT/zz_demo_test.go"
git -C "$WT" apply "$D/patch.diff" 2>/dev/null || git -C "$WT" apply --3way "$D/patch.diff"
CAUGHT=""; MISSED=""
for P in $PROPS; do
  OUT=$(cd /verif && VERIF_REPO="$WT" ./check $P --tier quick 2>&1)
  RC=$?
  if [ $RC -eq 1 ] && echo "$OUT" | grep -q "^VIOLATION property=$P"; then CAUGHT="$CAUGHT $P"; else MISSED="$MISSED $P(rc=$RC)"; fi
done
res "\"confirmed\": true, \"caught_by\": \"$(echo $CAUGHT)\", \"not_caught_by\": \"$(echo $MISSED)\""
