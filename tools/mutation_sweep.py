#!/usr/bin/env python3
"""Mechanical mutation sweep (sensitivity self-test; not used by any MANIFEST command).

For every mutation site of the classic operators (relational / logical / arithmetic / constant /
statement deletion) in the non-test sources of /repo:
  1. apply it to a scratch copy (outside /repo and /verif),
  2. keep it only if it compiles AND the repository's own suite still passes (twice),
  3. run a reduced ("smoke") version of all checks of /verif against the scratch copy,
  4. record whether some check raised a violation.
Mutants that survive the repository suite and all smoke checks are listed for manual triage
(equivalent mutant or a gap in the checks).

usage: tools/mutation_sweep.py [--jobs N] [--limit N] [--files a.go,b.go] [--out FILE] [--stride K --offset J]
"""
import argparse
import json
import os
import re
import shutil
import subprocess
import sys
import tempfile
import time
from concurrent.futures import ThreadPoolExecutor

REPO = "/repo"
VERIF = "/verif"
ENV = dict(os.environ, GOFLAGS="-mod=mod", GOPROXY="off", GOSUMDB="off", GOTOOLCHAIN="local")
SKIP_FILES = {"log_common.go", "log_debug.go", "log_nodebug.go", "sipsp.go", "parse_errors.go"}

OPS = [
    (r"(?<![<>=!:+\-&|])<(?![<=\-])", "<="), (r"<=", "<"),
    (r"(?<![<>=!\-])>(?![>=])", ">="), (r">=", ">"),
    (r"==", "!="), (r"!=", "=="),
    (r"&&", "||"), (r"\|\|", "&&"),
    (r"\+ 1\b", "+ 0"), (r"\+ 1\b", "+ 2"), (r"- 1\b", "- 0"), (r"\+1\b", "+0"), (r"\+ 2\b", "+ 1"), (r"\+2\b", "+1"),
    (r"\btrue\b", "false"), (r"\bfalse\b", "true"),
    (r"\b0\b", "1"), (r"\b1\b", "0"), (r"\b3\b", "2"), (r"\b3\b", "4"), (r"\b255\b", "256"), (r"\b65535\b", "65536"), (r"\b9\b", "10"),
    (r"\+\+", "--"), (r"\+=", "-="),
]
DELETE_RE = re.compile(r"^\s*(?:[A-Za-z_][\w\.\[\]\*&]*\s*(?:=|\+=|-=|\|=|&\^=)[^=].*|[A-Za-z_][\w\.]*\(.*\)|[A-Za-z_][\w\.\[\]]*(?:\+\+|--))\s*(?://.*)?$")


def sites(files):
    out = []
    for f in files:
        lines = open(os.path.join(REPO, f)).read().split("\n")
        in_block_comment = False
        for ln, line in enumerate(lines):
            s = line.strip()
            if in_block_comment:
                if "*/" in s:
                    in_block_comment = False
                continue
            if s.startswith("/*"):
                if "*/" not in s:
                    in_block_comment = True
                continue
            if not s or s.startswith("//") or s.startswith("import") or s.startswith("package"):
                continue
            code = line.split("//")[0] if '"' not in line else line
            for pat, rep in OPS:
                for m in re.finditer(pat, code):
                    # skip matches inside string / rune literals (crude)
                    pre = code[:m.start()]
                    if pre.count('"') % 2 == 1 or pre.count("'") % 2 == 1 or pre.count("`") % 2 == 1:
                        continue
                    out.append((f, ln, m.start(), m.end(), rep, "%s->%s" % (m.group(0), rep)))
            if DELETE_RE.match(line) and "return" not in line and ":=" not in line:
                out.append((f, ln, 0, len(line), "", "delete-stmt"))
    return out


SMOKE_ENV = {
    "VERIF_DEPTH": "-1", "VERIF_C14_LEN": "5", "VERIF_C20_LEN": "6", "VERIF_C20_DIGLEN": "4", "VERIF_C16_MAXLEN": "2",
    "VERIF_C04_MAXLEN": "2", "VERIF_C04_IP6LEN": "6", "VERIF_C10_DIGITS": "4", "VERIF_C18_LEN": "4", "VERIF_WATCHDOG_S": "20",
    "GOGC": "200",
}
SMOKE_TESTS = ("Test(C01Rapid|C01Corpus|C01Scope|C02Rapid|C02Scope|C03Rapid|C03Scope|C04StreamRapid|C04APIRapid|C04Scope|C04Enum|"
               "C05Rapid|C05Corpus|C06FrameRapid|C06PipeRapid|C06Grid|C07Rapid|C08Rapid|C08Enum|C09Rapid|C10Rapid|C10Enum|C11Rapid|"
               "C11RelocRapid|C11Scope|C12Rapid|C12URIRapid|C12Scope|C13Rapid|C13MultiRapid|C13Corpus|C14Rapid|C14Enum|C15Rapid|"
               "C16HdrRapid|C16MthRapid|C16ParseRapid|C16Enum|C17Rapid|C17ViaRapid|C18Rapid|C18Enum|C19Rapid|C20Rapid|C20Enum|Replay)$")


FILE_PROPS = {
    "ip_prefix.go": ["C20", "C04"], "hex2i.go": ["C04", "C20"],
    "sipuri.go": ["C14", "C18", "C15", "C10", "C11", "C12"],
    "parse_from.go": ["C09", "C02", "C05", "C10", "C12"],
    "parse_headers.go": ["C07", "C01", "C02", "C12", "C13", "C16", "C05", "C06"],
    "parse_params.go": ["C17", "C02", "C03", "C09"],
    "parse_uri_params.go": ["C17", "C13", "C15", "C12", "C02"],
    "parse_uri_hdrs.go": ["C17", "C13", "C15", "C12", "C02"],
    "parse_fline.go": ["C08", "C02", "C03", "C01"],
    "parse_utils.go": ["C02", "C03", "C07", "C01", "C09"],
    "parse_msg.go": ["C06", "C01", "C12", "C11", "C05"],
    "parse_contact.go": ["C09", "C13", "C12", "C02", "C05"],
    "parse_pai.go": ["C09", "C02", "C12", "C13"],
    "parse_cseq.go": ["C10", "C02", "C05"], "parse_clen.go": ["C10", "C02", "C06"],
    "parse_callid.go": ["C02", "C05", "C01"], "parse_method.go": ["C16", "C08"],
    "parse_types.go": ["C04", "C01", "C11"], "msg_sig.go": ["C19", "C20", "C17", "C04"],
    "parse_expires.go": ["C10", "C02"],
}


def tests_for(f):
    """in --full mode only the checks of the properties anchored in the mutated file are run (at default depth)"""
    props = FILE_PROPS.get(f)
    if not props:
        return SMOKE_TESTS
    names = SMOKE_TESTS[len("Test("):-len(")$")].split("|")
    keep = [n for n in names if n == "Replay" or n[:3] in props]
    return "Test(" + "|".join(keep) + ")$"


def run(cmd, cwd, env=None, timeout=600):
    try:
        p = subprocess.run(cmd, cwd=cwd, env=env or ENV, stdout=subprocess.PIPE, stderr=subprocess.STDOUT, text=True, timeout=timeout)
        return p.returncode, p.stdout
    except subprocess.TimeoutExpired:
        return -9, "TIMEOUT"


FULL_ENV = {"VERIF_WATCHDOG_S": "30", "GOGC": "200", "VERIF_C14_LEN": "6", "VERIF_C20_LEN": "8", "VERIF_C04_IP6LEN": "7"}
USE_FULL = False


def one(site, idx, checks):
    f, ln, a, b, rep, desc = site
    wd = tempfile.mkdtemp(prefix="mut%05d-" % idx, dir="/tmp/mutsweep")
    try:
        lib = os.path.join(wd, "lib")
        os.makedirs(lib)
        for fn in os.listdir(REPO):
            if fn.endswith(".go") or fn in ("go.mod", "go.sum"):
                shutil.copy(os.path.join(REPO, fn), lib)
        p = os.path.join(lib, f)
        lines = open(p).read().split("\n")
        orig = lines[ln]
        lines[ln] = orig[:a] + rep + orig[b:]
        open(p, "w").write("\n".join(lines))
        res = dict(file=f, line=ln + 1, op=desc, orig=orig.strip()[:120], mutated=lines[ln].strip()[:120])
        rc, out = run(["go", "build", "./..."], lib)
        if rc != 0:
            res["status"] = "no-compile"
            return res
        rc, out = run(["go", "vet", "./..."], lib)
        for _ in range(2):
            rc, out = run(["go", "test", "-vet=off", "-count=1", "./..."], lib, timeout=300)
            if rc != 0:
                res["status"] = "killed-by-repo-suite"
                return res
        # build the harness against the mutated copy
        mod = open(os.path.join(VERIF, "harness", "go.mod")).read().replace("=> /repo", "=> " + lib)
        modfile = os.path.join(wd, "alt.mod")
        open(modfile, "w").write(mod)
        shutil.copy(os.path.join(VERIF, "harness", "go.sum"), os.path.join(wd, "alt.sum"))
        binp = os.path.join(wd, "props.test")
        rc, out = run(["go", "test", "-c", "-modfile", modfile, "-o", binp, "./props"], os.path.join(VERIF, "harness"))
        if rc != 0:
            res["status"] = "harness-build-failed"
            res["detail"] = out[-500:]
            return res
        env = dict(ENV)
        env.update(FULL_ENV if USE_FULL else SMOKE_ENV)
        env.update({"VERIF_REPLAY_DIR": os.path.join(wd, "rp"), "VERIF_STATS": os.path.join(wd, "st.json"),
                    "VERIF_REPLAY_FILES": os.path.join(VERIF, "replays"), "GOMAXPROCS": "3", "VERIF_WORKERS": "3"})
        t0 = time.time()
        rc, out = run([binp, "-test.run", tests_for(f) if USE_FULL else SMOKE_TESTS, "-rapid.checks=%d" % checks, "-rapid.seed=7", "-rapid.nofailfile",
                       "-rapid.shrinktime=1s", "-test.timeout", "900s"], os.path.join(VERIF, "harness", "props"), env, timeout=1000)
        res["smoke_s"] = round(time.time() - t0, 1)
        killers = sorted(set(re.findall(r"VIOLATION-FOUND property=(\S+) check=(\S+)", out)))
        if killers:
            res["status"] = "caught"
            res["by"] = ["%s/%s" % k for k in killers][:6]
        elif rc != 0:
            res["status"] = "caught-other"  # test binary failed without a recorded violation (panic/timeout in the harness)
            res["detail"] = out[-800:]
        else:
            res["status"] = "SURVIVED"
        return res
    finally:
        shutil.rmtree(wd, ignore_errors=True)


def main():
    ap = argparse.ArgumentParser()
    ap.add_argument("--jobs", type=int, default=5)
    ap.add_argument("--limit", type=int, default=0)
    ap.add_argument("--files", default="")
    ap.add_argument("--out", default="/tmp/mutsweep/result.jsonl")
    ap.add_argument("--stride", type=int, default=1)
    ap.add_argument("--offset", type=int, default=0)
    ap.add_argument("--checks", type=int, default=400)
    ap.add_argument("--from-results", default="", help="re-run only the SURVIVED mutants of an earlier result file")
    ap.add_argument("--skip-files", default="")
    ap.add_argument("--full", action="store_true", help="default enumeration depths instead of the smoke sizes")
    ap.add_argument("--skip-range", default="", help="file.go:from-to[,file.go:from-to] lines not mutated")
    a = ap.parse_args()
    global USE_FULL
    USE_FULL = a.full
    os.makedirs("/tmp/mutsweep", exist_ok=True)
    files = [f for f in sorted(os.listdir(REPO)) if f.endswith(".go") and not f.endswith("_test.go") and f not in SKIP_FILES]
    if a.files:
        files = a.files.split(",")
    st = sites(files)
    if a.from_results:
        surv = set()
        for l in open(a.from_results):
            d = json.loads(l)
            if d["status"] == "SURVIVED":
                surv.add((d["file"], d["line"] - 1, d["op"], d["mutated"]))
        skip = set(a.skip_files.split(","))
        keep = []
        for t in st:
            f, ln, x, y, rep, desc = t
            line = open(os.path.join(REPO, f)).read().split("\n")[ln]
            mutated = (line[:x] + rep + line[y:]).strip()[:120]
            if (f, ln, desc, mutated) in surv and f not in skip:
                keep.append(t)
        st = keep
    for r in filter(None, a.skip_range.split(",")):
        f, lr = r.split(":")
        lo, hi = [int(x) for x in lr.split("-")]
        st = [t for t in st if not (t[0] == f and lo <= t[1] + 1 <= hi)]
    st = st[a.offset::a.stride]
    if a.limit:
        st = st[:a.limit]
    print("%d mutation sites" % len(st), flush=True)
    done = 0
    counts = {}
    with open(a.out, "a") as outf, ThreadPoolExecutor(max_workers=a.jobs) as ex:
        for res in ex.map(lambda t: one(t[1], t[0], a.checks), enumerate(st)):
            done += 1
            counts[res["status"]] = counts.get(res["status"], 0) + 1
            outf.write(json.dumps(res) + "\n")
            outf.flush()
            if res["status"] in ("SURVIVED", "caught-other", "harness-build-failed") or done % 25 == 0:
                print(done, counts, res["status"], res["file"], res["line"], res["op"], "|", res["mutated"], flush=True)
    print("FINAL", counts)


if __name__ == "__main__":
    main()
