#!/usr/bin/env python3
"""Regenerates /verif/MANIFEST.json from tools/plan.py (single source of truth)."""
import json, os, sys
ROOT = os.path.dirname(os.path.dirname(os.path.abspath(__file__)))
sys.path.insert(0, os.path.join(ROOT, "tools"))
import plan as PLAN

props = [json.loads(l) for l in open(os.path.join(ROOT, "properties.jsonl"))]
checks = []
na = []
for p in props:
    pid = p["id"]
    pl = PLAN.PLAN.get(pid)
    if not pl:
        na.append(dict(property_id=pid, reason=PLAN.NOT_CLAIMED.get(pid, "check not built yet (work in progress in this session); nothing is claimed for it")))
        continue
    checks.append(dict(
        property_id=pid,
        quick_cmd="./check %s --tier quick" % pid,
        thorough_cmd="./check %s --tier thorough" % pid,
        evidence_file="/verif/evidence/%s.json" % pid,
        replay_cmd_template="./check %s --replay {path}" % pid,
        engine="sipsp-pbt",
        level_claimed=dict(category="exploration", text=pl["level_text"], design_ref=pl.get("design_ref", "DESIGN.md §4 " + pid)),
        level_note=pl.get("level_note", "Trusted: Go toolchain, rapid v1.3.0, the hand-written reference models/oracles in harness/props. Sampling (plus the enumerated sub-spaces listed in the evidence) - not a proof of absence."),
        technique=pl["technique"] + ("; the thorough tier adds native coverage-guided fuzzing (go test -fuzz) through the same oracle"
                                     if any(st.get("kind") == "fuzz" for st in pl["thorough"]) and "fuzz" not in pl["technique"].lower() else ""),
    ))
m = dict(
    version=1,
    setup_cmd="cd /verif/harness && mkdir -p /verif/.build && GOFLAGS=-mod=mod GOPROXY=off GOSUMDB=off GOTOOLCHAIN=local go test -c -tags verif -o /verif/.build/props.test ./props && GOFLAGS=-mod=mod GOPROXY=off GOSUMDB=off GOTOOLCHAIN=local go test -c -race -tags verif -o /verif/.build/props.race.test ./props",
    hooks=dict(guard="verif", enable="no source hooks are needed: the harness is an external Go package importing sipsp through 'replace => /repo'; the tag 'verif' is passed to every build for uniformity and guards nothing in /repo",
               baseline_off_cmd="cd /repo && GOFLAGS=-mod=mod GOPROXY=off GOSUMDB=off go test -vet=off -count=1 -json ./...",
               source_commits=[], add_only=True),
    engines=[dict(name="sipsp-pbt", path="/verif/harness", serves_properties=[c["property_id"] for c in checks],
                  kind_free_text="Go test binary (rapid v1.3.0 generators + exhaustive small-scope enumerators + native fuzz targets) driven by the python driver /verif/check")],
    checks=checks,
    notes="All checks are property-based tests / enumerations / fuzzing with explicit oracles; see DESIGN.md. Defects found and repaired are listed in known_findings.json ('fixed'); their shrunk cases live in replays/<ID>/ and are re-run first by every check. Every generator occasionally stretches one element (token, whitespace run, zero padding) or one count (items, headers, contacts, capacities) to a size from a fixed needle list (15..1000 bytes, 9..300 items), see DESIGN.md 7b.",
    not_applicable=na,
)
json.dump(m, open(os.path.join(ROOT, "MANIFEST.json"), "w"), indent=1)
print("MANIFEST.json: %d checks, %d not claimed" % (len(checks), len(na)))
