#!/usr/bin/env python3
"""False-alarm probe (self-test; not used by any MANIFEST command).

usage: tools/preserve_run.py <outdir> [props...]

<outdir>/<prop>/m<k>/{patch.diff,meta.json} are source changes written by independent sub-agents that were asked
to PRESERVE the property (equivalent refactorings, or changes of behaviour the property leaves open). Each is applied
to a scratch copy of /repo (outside /repo and /verif, removed afterwards); it must build and pass the repository
suite; then the quick checks of the targeted property and of every property anchored in the touched files are run
against the copy (VERIF_REPO). A VIOLATION here is either a change that does break a property after all (the agent
was wrong) or a false alarm of the check - each one is read by hand. Output: one JSON line per change.
"""
import json, os, re, shutil, subprocess, sys, tempfile
sys.path.insert(0, os.path.dirname(__file__))
from mutation_sweep import FILE_PROPS

ENV = dict(os.environ, GOFLAGS="-mod=mod", GOPROXY="off", GOSUMDB="off", GOTOOLCHAIN="local")


def run(cmd, cwd, env=ENV, timeout=1800):
    p = subprocess.run(cmd, cwd=cwd, env=env, stdout=subprocess.PIPE, stderr=subprocess.STDOUT, text=True, timeout=timeout)
    return p.returncode, p.stdout


def main():
    out = sys.argv[1]
    props = sys.argv[2:] or sorted(d for d in os.listdir(out) if re.match(r"C\d\d$", d))
    for prop in props:
        for k in (1, 2, 3):
            d = os.path.join(out, prop, "m%d" % k)
            patch = os.path.join(d, "patch.diff")
            if not os.path.exists(patch):
                continue
            res = dict(change="%s/m%d" % (prop, k))
            try:
                res["kind"] = json.load(open(os.path.join(d, "meta.json"))).get("kind", "")
            except Exception:
                res["kind"] = ""
            if os.environ.get("PRESERVE_KIND") and not res["kind"].startswith(os.environ["PRESERVE_KIND"]):
                continue
            wd = tempfile.mkdtemp(prefix="preserve-", dir="/tmp")
            try:
                run(["git", "init", "-q"], wd)
                for fn in os.listdir("/repo"):
                    if fn.endswith(".go") or fn in ("go.mod", "go.sum"):
                        shutil.copy(os.path.join("/repo", fn), wd)
                rc, o = run(["git", "apply", patch], wd)
                if rc != 0:
                    res["status"] = "patch does not apply"
                    print(json.dumps(res), flush=True)
                    continue
                files = sorted(set(re.findall(r"^\+\+\+ b/(\S+)", open(patch).read(), re.M)))
                res["files"] = files
                rc, o = run(["go", "build", "./..."], wd)
                if rc != 0:
                    res["status"] = "does not build"
                    print(json.dumps(res), flush=True)
                    continue
                okk = True
                for _ in range(2):
                    rc, o = run(["go", "test", "-vet=off", "-count=1", "./..."], wd)
                    okk = okk and rc == 0
                if not okk:
                    res["status"] = "repository suite fails"
                    print(json.dumps(res), flush=True)
                    continue
                todo = [prop]
                for f in files:
                    for p in FILE_PROPS.get(f, []):
                        if p not in todo:
                            todo.append(p)
                if os.environ.get("PRESERVE_ALL"):
                    todo = ["C%02d" % i for i in range(1, 21)]
                alarms = {}
                for p in todo:
                    rc, o = run(["./check", p, "--tier", "quick"], "/verif", dict(ENV, VERIF_REPO=wd))
                    if rc != 0:
                        m = re.search(r"^\s*check=.*$", o, re.M)
                        alarms[p] = dict(rc=rc, first=(m.group(0).strip()[:400] if m else o[-300:]))
                res["checked"] = todo
                res["alarms"] = alarms
                res["status"] = "silent" if not alarms else "ALARM"
                print(json.dumps(res), flush=True)
            finally:
                shutil.rmtree(wd, ignore_errors=True)


if __name__ == "__main__":
    main()
